/-! Model of `EyeballSet::{process_all, join_next_with_timeout, finish}` (src/happy_eyeballs.rs)
    as an event-driven simulation in virtual milliseconds over scripted attempts.

    Timing rules (each observed on the real `EyeballSet` under tokio's paused clock, DESIGN.md §C10):
    a completion due at the same instant as the stagger tick wins; a completion due exactly at the
    overall deadline wins over the deadline; the inner future is polled before the timer. -/
namespace Hd.Eyeballs

inductive Out | ok | err
deriving DecidableEq, Repr

/-- A scripted connection attempt: completes `lat` ms after it is first polled (`none` = never). -/
structure Attempt where
  lat : Option Nat
  out : Out
deriving Repr, DecidableEq

structure Cfg where
  delay   : Option Nat      -- stagger delay (`EyeballSet::delay`)
  timeout : Option Nat      -- overall deadline (`EyeballSet::timeout`)
  conc    : Option Nat      -- `initial_concurrency`
deriving Repr, DecidableEq

/-- An attempt inside `tasks: FuturesUnordered`. -/
structure Running where
  idx : Nat
  fin : Option Nat          -- absolute completion time
deriving Repr, DecidableEq

inductive Result
  | ok (i t : Nat)          -- `Ok(outcome)` of attempt `i` at time `t`
  | firstErr (i t : Nat)    -- `Err(HappyEyeballsError::Error(e))`, `e` from attempt `i`
  | timeout (t : Nat)       -- `Err(HappyEyeballsError::Timeout(_))`
  | noProgress (t : Nat)    -- `Err(HappyEyeballsError::NoProgress)`
  | hang                    -- never resolves (no deadline, nothing can complete)
deriving Repr, DecidableEq

structure St where
  now      : Nat := 0
  queue    : List Nat                       -- indices still in `queue: VecDeque<F>`
  running  : List Running := []             -- `tasks`, in push order
  firstErr : Option Nat := none             -- `self.error`
  starts   : List (Nat × Nat) := []         -- trace: (index, time of first poll)
  fails    : List (Nat × Nat) := []         -- trace: (index, time) of failed completions
  tie      : Bool := false                  -- two attempts were due at the same instant
deriving Repr

/-- Earliest finite completion; ties resolved in favour of the earlier-pushed attempt. -/
def earliest : List Running → Option (Nat × Nat)   -- (time, idx)
  | [] => none
  | r :: rs =>
    match r.fin, earliest rs with
    | none, e => e
    | some t, none => some (t, r.idx)
    | some t, some (t', j) => if t ≤ t' then some (t, r.idx) else some (t', j)

/-- Is there more than one attempt due at the earliest instant? -/
def tied (rs : List Running) : Bool :=
  match earliest rs with
  | none => false
  | some (t, _) => decide ((rs.filter (fun r => r.fin == some t)).length > 1)

def latOf (atts : List Attempt) (i : Nat) : Option Nat :=
  match atts[i]? with | some a => a.lat | none => none

def outOf (atts : List Attempt) (i : Nat) : Out :=
  match atts[i]? with | some a => a.out | none => .err

/-- `self.tasks.push(future)`; the future is first polled at the current instant. -/
def start (atts : List Attempt) (s : St) (i : Nat) : St :=
  { s with running := s.running ++ [{ idx := i, fin := (latOf atts i).map (s.now + ·) }],
           starts := s.starts ++ [(i, s.now)] }

/-- `for _ in 0..initial_concurrency.unwrap_or(queue.len())`. -/
def startN (atts : List Attempt) : Nat → St → St
  | 0, s => s
  | n+1, s =>
    match s.queue with
    | [] => s
    | i :: q => startN atts n (start atts { s with queue := q } i)

/-- Strictly after the overall deadline? (a completion exactly at the deadline still wins) -/
def past (c : Cfg) (t : Nat) : Bool :=
  match c.timeout with | some d => decide (d < t) | none => false

/-- Outcome of `join_next` completing attempt `j` at time `tf`. -/
def complete (atts : List Attempt) (s : St) (j tf : Nat) : St :=
  { s with now := tf, running := s.running.filter (·.idx != j), tie := s.tie || tied s.running }

def recordFail (s : St) (j : Nat) : St :=
  { s with firstErr := s.firstErr.or (some j), fails := s.fails ++ [(j, s.now)] }

/-- What `join_next` / `join_next_with_timeout` resolves with next. -/
inductive Event
  | completion (tf j : Nat)   -- attempt `j` completes at `tf`
  | tick (te : Nat)           -- the stagger timer fires at `te` (`Eyeball::Timeout`)
  | stuck                     -- nothing can ever wake the future (only the overall deadline can)
deriving Repr, DecidableEq

/-- Next event: the earliest completion, or the stagger tick; the completion wins ties because
    `tokio::time::timeout` polls the inner future first. `tick` = the stagger deadline, if any. -/
def nextEvent (rs : List Running) (tick : Option Nat) : Event :=
  match earliest rs, tick with
  | some (tf, j), some te => if tf ≤ te then .completion tf j else .tick te
  | some (tf, j), none => .completion tf j
  | none, some te => .tick te
  | none, none => .stuck

/-- The overall deadline is the only thing left: `Timeout` at the deadline, or never. -/
def stuckResult (c : Cfg) : Result :=
  match c.timeout with
  | some d => .timeout d
  | none => .hang

/-- Phases 2 (stagger loop) and 3 (drain loop) of `process_all`, under the overall deadline of
    `finish`. One iteration per event; `fuel` bounds the number of events (2n+2 suffice). -/
def loop (c : Cfg) (atts : List Attempt) : Nat → St → Result × St
  | 0, s => (.hang, s)
  | fuel+1, s =>
    match s.queue with
    | f :: q =>
      -- phase 2: `while let Some(future) = self.queue.pop_front()`
      match s.running with
      | [] => loop c atts fuel (start atts { s with queue := q } f)      -- `Exhausted`: push at once
      | _ :: _ =>
        match nextEvent s.running (c.delay.map (s.now + ·)) with
        | .completion tf j =>
          if past c tf then (.timeout (c.timeout.getD 0), s) else
          match outOf atts j with
          | .ok => (.ok j tf, complete atts s j tf)
          | .err => loop c atts fuel (start atts { (recordFail (complete atts s j tf) j) with queue := q } f)
        | .tick te =>
          if past c te then (.timeout (c.timeout.getD 0), s) else
          loop c atts fuel (start atts { s with now := te, queue := q } f)
        | .stuck => (stuckResult c, s)
    | [] =>
      -- phase 3: `loop { match self.join_next().await … }`
      match s.running with
      | [] =>
        match s.firstErr with
        | some i => (.firstErr i s.now, s)
        | none => (.noProgress s.now, s)
      | _ :: _ =>
        match nextEvent s.running none with
        | .completion tf j =>
          if past c tf then (.timeout (c.timeout.getD 0), s) else
          match outOf atts j with
          | .ok => (.ok j tf, complete atts s j tf)
          | .err => loop c atts fuel (recordFail (complete atts s j tf) j)
        | _ => (stuckResult c, s)

def init (n : Nat) : St := { queue := List.range n }

/-- `FuturesUnordered` polls newly pushed futures in push order and returns at the first one that
    is ready: when an attempt completes successfully at its very first poll, the attempts pushed
    after it are dropped without ever having been polled, i.e. they were never started. -/
def trimStarts (atts : List Attempt) (r : Result) (starts : List (Nat × Nat)) : List (Nat × Nat) :=
  match r with
  | .ok j _ =>
    if latOf atts j = some 0 then
      starts.takeWhile (fun st => st.1 != j) ++ (starts.dropWhile (fun st => st.1 != j)).take 1
    else starts
  | _ => starts

def run (c : Cfg) (atts : List Attempt) : Result × St :=
  let n := atts.length
  let r := loop c atts (2 * n + 2) (startN atts (c.conc.getD n) (init n))
  (r.1, { r.2 with starts := trimStarts atts r.1 r.2.starts })

/-- `TcpConnecting::connect`: `delay = happy_eyeballs_timeout / n` (the timeout itself when there
    are no addresses), overall timeout = `happy_eyeballs_timeout`. -/
def tcpCfg (heTimeout : Option Nat) (conc : Option Nat) (n : Nat) : Cfg :=
  { delay := if n = 0 then heTimeout else heTimeout.map (· / n), timeout := heTimeout, conc := conc }

end Hd.Eyeballs
