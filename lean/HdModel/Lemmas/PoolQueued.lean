import HdModel.Lemmas.PoolChan
import HdModel.Lemmas.PoolMarker
/-! Every listening checkout is queued (C14, C04). In every reachable state a checkout whose oneshot
    channel is still empty – it is listening for a connection from the pool, whether or not it also dials
    by itself – is in the waiter queue of its own origin. So a connection released for that origin finds
    it: `push` walks exactly that queue. -/
namespace Hd.Pool

def Queued (s : State) : Prop := ∀ r c, s.co r = some c → s.chan r = .empty → r ∈ s.waiting c.token

theorem queued_init (cfg : Config) : Queued (init cfg) := by
  intro r c h; simp [init] at h

/-- From `s` to `s'`, apart from request `ex`: checkouts keep their token, no channel becomes empty, and
    whoever was queued and is still listening is still queued. -/
structure QFrame (ex : Option ReqId) (s' s : State) : Prop where
  co : ∀ x cx, some x ≠ ex → s'.co x = some cx → ∃ c0, s.co x = some c0 ∧ c0.token = cx.token
  chan : ∀ x, some x ≠ ex → s'.chan x = .empty → s.chan x = .empty
  queue : ∀ x t, some x ≠ ex → x ∈ s.waiting t → s'.chan x = .empty → x ∈ s'.waiting t

theorem QFrame.refl (ex : Option ReqId) (s : State) : QFrame ex s s :=
  ⟨fun _ cx _ h => ⟨cx, h, rfl⟩, fun _ _ h => h, fun _ _ _ h _ => h⟩

theorem QFrame.trans {ex : Option ReqId} {a b c : State} (h1 : QFrame ex a b) (h2 : QFrame ex b c) : QFrame ex a c :=
  ⟨fun x cx hx h => by
    obtain ⟨c0, h0, t0⟩ := h1.co x cx hx h
    obtain ⟨c1, h1', t1⟩ := h2.co x c0 hx h0
    exact ⟨c1, h1', t1.trans t0⟩,
   fun x hx h => h2.chan x hx (h1.chan x hx h),
   fun x t hx hq he => h1.queue x t hx (h2.queue x t hx hq (h1.chan x hx he)) he⟩

theorem QFrame.of_eq {ex : Option ReqId} {s' s : State} (hco : s'.co = s.co) (hch : s'.chan = s.chan) (hw : s'.waiting = s.waiting) :
    QFrame ex s' s :=
  ⟨fun x cx _ h => ⟨cx, by rw [← hco]; exact h, rfl⟩, fun x _ h => by rw [hch] at h; exact h,
   fun x t _ hq _ => by rw [hw]; exact hq⟩

/-- setting a channel to something that is not `empty` -/
theorem QFrame.setChan {ex : Option ReqId} (s : State) (r : ReqId) (v : Chan) (hv : v ≠ .empty) :
    QFrame ex { s with chan := upd s.chan r v } s := by
  refine ⟨fun x cx _ h => ⟨cx, h, rfl⟩, fun x _ h => ?_, fun x t _ hq _ => hq⟩
  by_cases e : x = r
  · subst e; simp only [upd_same] at h; exact absurd h hv
  · simpa [upd, e] using h

/-- writing `r`'s checkout record, same token -/
theorem QFrame.setCo {ex : Option ReqId} (s : State) (r : ReqId) (c c' : Checkout) (hco : s.co r = some c) (ht : c'.token = c.token) :
    QFrame ex { s with co := upd s.co r (some c') } s := by
  refine ⟨fun x cx _ h => ?_, fun x _ h => h, fun x t _ hq _ => hq⟩
  by_cases e : x = r
  · subst e
    simp only [upd_same, Option.some.injEq] at h
    subst h
    exact ⟨c, hco, ht.symm⟩
  · exact ⟨cx, by simpa [upd, e] using h, rfl⟩

theorem Queued.frame {s s' : State} (h : Queued s) (f : QFrame none s' s) : Queued s' := by
  intro r c hc he
  have hx : some r ≠ (none : Option ReqId) := by intro e; cases e
  obtain ⟨c0, h0, t0⟩ := f.co r c hx hc
  have := h r c0 h0 (f.chan r hx he)
  rw [t0] at this
  exact f.queue r c.token hx this he

theorem Queued.frameEx {s s' : State} (h : Queued s) (r : ReqId) (f : QFrame (some r) s' s)
    (hr : ∀ c, s'.co r = some c → s'.chan r = .empty → r ∈ s'.waiting c.token) : Queued s' := by
  intro x c hc he
  by_cases e : x = r
  · subst e; exact hr c hc he
  · have hx : some x ≠ some r := fun e' => e (Option.some.inj e')
    obtain ⟨c0, h0, t0⟩ := f.co x c hx hc
    have := h x c0 h0 (f.chan x hx he)
    rw [t0] at this
    exact f.queue x c.token hx this he

theorem QFrame.weaken {ex : Option ReqId} {s' s : State} (h : QFrame none s' s) : QFrame ex s' s :=
  ⟨fun x cx _ hc => h.co x cx (by intro e; cases e) hc, fun x _ hb => h.chan x (by intro e; cases e) hb,
   fun x t _ hq he => h.queue x t (by intro e; cases e) hq he⟩

theorem spawn_qframe (ex : Option ReqId) (s : State) (t : Task) : QFrame ex (spawn s t) s := QFrame.of_eq rfl rfl rfl

theorem dropPooled_qframe (ex : Option ReqId) (s : State) (p : Pooled) : QFrame ex (dropPooled s p) s := by
  unfold dropPooled; split
  · exact QFrame.refl ex s
  · exact spawn_qframe ex s _

theorem dropRx_qframe (ex : Option ReqId) (s : State) (r : ReqId) : QFrame ex (dropRx s r) s := by
  unfold dropRx
  split
  · exact (dropPooled_qframe _ _ _).trans (QFrame.setChan s r .rxGone (by intro h; cases h))
  · exact QFrame.setChan s r .rxGone (by intro h; cases h)
  · exact QFrame.refl _ s

/-- the delivery loop: whoever it takes off the queue is no longer listening -/
theorem pushLoop_queue (token : Token) (c : ConnId) : ∀ (q : List ReqId) (s : State),
    (∀ x, x ∈ s.waiting token → x ∈ q ∨ s.chan x ≠ .empty) →
    (pushLoop s token c q).1.co = s.co ∧
    (∀ x, (pushLoop s token c q).1.chan x = .empty → s.chan x = .empty) ∧
    (∀ t', t' ≠ token → (pushLoop s token c q).1.waiting t' = s.waiting t') ∧
    (∀ x, x ∈ s.waiting token → (pushLoop s token c q).1.chan x = .empty → x ∈ (pushLoop s token c q).1.waiting token)
  | [], s, hq => by
    simp only [pushLoop]
    refine ⟨by first | rfl | trivial, fun _ h => h, fun t' h => by simp [upd, h], ?_⟩
    intro x hx he
    rcases hq x hx with h | h
    · cases h
    · exact absurd he h
  | r0 :: rest, s, hq => by
    simp only [pushLoop]
    split
    · rename_i he0
      split
      · -- shareable: a clone to r0, on to the rest
        have ih := pushLoop_queue token c rest { s with chan := upd s.chan r0 (.full ⟨c, 0, true⟩) } (by
          intro x hx
          rcases hq x hx with h | h
          · rcases List.mem_cons.mp h with h | h
            · subst h; right; simp
            · left; exact h
          · right
            by_cases e : x = r0
            · subst e; simp
            · simpa [upd, e] using h)
        obtain ⟨i1, i2, i3, i4⟩ := ih
        refine ⟨i1, ?_, i3, i4⟩
        intro x hx
        have := i2 x hx
        by_cases e : x = r0
        · subst e; simp at this
        · simpa [upd, e] using this
      · -- not shareable: r0 gets it, the rest stay queued
        refine ⟨by first | rfl | trivial, ?_, fun t' h => by simp [upd, h], ?_⟩
        · intro x hx
          by_cases e : x = r0
          · subst e; simp at hx
          · simpa [upd, e] using hx
        · intro x hx he
          have hne : x ≠ r0 := by intro e; subst e; simp at he
          have he' : s.chan x = .empty := by simpa [upd, hne] using he
          show x ∈ upd s.waiting token rest token
          simp only [upd_same]
          rcases hq x hx with h | h
          · rcases List.mem_cons.mp h with h | h
            · exact absurd h hne
            · exact h
          · exact absurd he' h
    · rename_i hne0
      exact pushLoop_queue token c rest s (by
        intro x hx
        rcases hq x hx with h | h
        · rcases List.mem_cons.mp h with h | h
          · subst h; right; intro he; exact hne0 he
          · left; exact h
        · right; exact h)

theorem clearMarker_qframe (ex : Option ReqId) (s : State) (t : Token) (c : ConnId) : QFrame ex (clearMarker s t c) s := by
  unfold clearMarker; split
  · exact QFrame.of_eq rfl rfl rfl
  · exact QFrame.refl ex s

theorem push_qframe (ex : Option ReqId) (s : State) (t : Token) (c : ConnId) : QFrame ex (push s t c) s := by
  unfold push
  simp only []
  have f0 := clearMarker_qframe ex s t c
  have hw : (clearMarker s t c).waiting = s.waiting := clearMarker_waiting s t c
  obtain ⟨p1, p2, p3, p4⟩ := pushLoop_queue t c ((clearMarker s t c).waiting t) (clearMarker s t c) (fun x hx => Or.inl hx)
  have f1 : QFrame ex (pushLoop (clearMarker s t c) t c ((clearMarker s t c).waiting t)).1 (clearMarker s t c) := by
    refine ⟨fun x cx _ h => ⟨cx, by rw [← p1]; exact h, rfl⟩, fun x _ h => p2 x h, ?_⟩
    intro x t' _ hq he
    by_cases e : t' = t
    · subst e; exact p4 x hq he
    · rw [p3 t' e]; exact hq
  have h1 := f1.trans f0
  generalize pushLoop (clearMarker s t c) t c ((clearMarker s t c).waiting t) = pl at h1
  obtain ⟨x1, d⟩ := pl
  simp only [] at h1 ⊢
  split
  · exact h1
  · split
    · refine QFrame.trans ?_ h1; exact QFrame.of_eq rfl rfl rfl
    · split
      · exact h1
      · refine QFrame.trans ?_ h1; exact QFrame.of_eq rfl rfl rfl

theorem cancelConnection_qframe (ex : Option ReqId) (s : State) (t : Token) : QFrame ex (cancelConnection s t) s := by
  unfold cancelConnection; split
  · simp only []
    obtain ⟨d1, _, d3, d4, d5⟩ := dropSenders_spec (s.waiting t) ({ s with connecting := s.connecting.erase t } : State)
    refine ⟨fun x cx _ h => ⟨cx, ?_, rfl⟩, fun x _ h => d4 x h, ?_⟩
    · have : (dropSenders ({ s with connecting := s.connecting.erase t } : State) (s.waiting t)).co x = some cx := h
      rw [d1] at this; exact this
    · intro x t' _ hq he
      by_cases e : t' = t
      · subst e
        exact absurd he (d5 x hq)
      · show x ∈ upd (dropSenders ({ s with connecting := s.connecting.erase t } : State) (s.waiting t)).waiting t [] t'
        rw [d3]; simp only [upd, e, ↓reduceIte]; exact hq
  · exact QFrame.refl ex s

theorem cancelIfOwner_qframe (ex : Option ReqId) (s : State) (c : Checkout) : QFrame ex (cancelIfOwner s c) s := by
  unfold cancelIfOwner; split
  · exact cancelConnection_qframe ex s _
  · exact QFrame.refl ex s

theorem returnUnused_qframe (ex : Option ReqId) (s : State) (c : Checkout) : QFrame ex (returnUnused s c) s := by
  unfold returnUnused
  split
  · split
    · exact push_qframe ex _ _ _
    · split
      · exact QFrame.refl ex s
      · exact QFrame.of_eq rfl rfl rfl
  · exact QFrame.refl ex s

theorem startDial_qframe (ex : Option ReqId) (s : State) (r : ReqId) : QFrame ex (startDial s r) s := by
  unfold startDial; split
  · exact QFrame.refl ex s
  · exact QFrame.of_eq rfl rfl rfl

theorem setConn_qframe (ex : Option ReqId) (s : State) (c : ConnId) (f : Conn → Conn) : QFrame ex (setConn s c f) s := by
  unfold setConn; split
  · exact QFrame.of_eq rfl rfl rfl
  · exact QFrame.refl ex s

theorem registerConnected_qframe (ex : Option ReqId) (s : State) (c : Checkout) (cid : ConnId) : QFrame ex (registerConnected s c cid).1 s := by
  unfold registerConnected; split
  · exact push_qframe ex _ _ _
  · exact QFrame.refl ex s

theorem tokenOf_qframe (ex : Option ReqId) (s : State) (k : KeyId) : QFrame ex (tokenOf s k).1 s := by
  unfold tokenOf; split
  · exact QFrame.refl ex s
  · exact QFrame.of_eq rfl rfl rfl

end Hd.Pool

namespace Hd.Pool

/-! ### issue -/

theorem issueFound_queued {s : State} (h : Queued s) (r : ReqId) (k : KeyId) (mux : Bool) (t : Token) (c : ConnId) :
    Queued (issueFound s r k mux t c) := by
  unfold issueFound
  simp only []
  have f1 : QFrame (some r) (if canShare s c then { s with idle := upd s.idle t ((c, s.now) :: s.idle t) } else s) s := by
    split
    · exact QFrame.of_eq rfl rfl rfl
    · exact QFrame.refl _ s
  generalize (if canShare s c then { s with idle := upd s.idle t ((c, s.now) :: s.idle t) } else s) = s1 at f1
  have f2 : QFrame (some r) { s1 with chan := upd s1.chan r .txGone } s :=
    (QFrame.setChan s1 r .txGone (by intro h; cases h)).trans f1
  refine h.frameEx r ?_ ?_
  · refine QFrame.trans ?_ f2
    refine ⟨fun x cx hx hc => ?_, fun x _ he => he, fun x t' _ hq _ => hq⟩
    have e : x ≠ r := fun e => hx (by rw [e])
    exact ⟨cx, by simpa [upd, e] using hc, rfl⟩
  · intro c' _ he
    simp only [upd_same] at he
    cases he

theorem issueMissing_queued {s : State} (h : Queued s) (r : ReqId) (k : KeyId) (mux : Bool) (t : Token) :
    Queued (issueMissing s r k mux t) := by
  unfold issueMissing
  simp only []
  have key : ∀ (chk : Checkout) (conn : List Token) (att : Nat) (own : Token → Nat), chk.token = t →
      Queued { s with waiting := upd s.waiting t (s.waiting t ++ [r]), chan := upd s.chan r .empty,
                      connecting := conn, attempts := att, owner := own, co := upd s.co r (some chk) } := by
    intro chk conn att own hct
    refine h.frameEx r ?_ ?_
    · refine ⟨fun x cx hx hc => ?_, fun x hx he => ?_, fun x t' _ hq _ => ?_⟩
      · have e : x ≠ r := fun e => hx (by rw [e])
        exact ⟨cx, by simpa [upd, e] using hc, rfl⟩
      · have e : x ≠ r := fun e => hx (by rw [e])
        simpa [upd, e] using he
      · show x ∈ upd s.waiting t (s.waiting t ++ [r]) t'
        by_cases e : t' = t
        · subst e; simp only [upd_same]; exact List.mem_append_left _ hq
        · simp only [upd, e, ↓reduceIte]; exact hq
    · intro c' hc' _
      simp only [upd_same, Option.some.injEq] at hc'
      subst hc'
      show r ∈ upd s.waiting t (s.waiting t ++ [r]) chk.token
      rw [hct]; simp
  split
  · exact key _ _ _ _ rfl
  · split <;> exact key _ _ _ _ rfl

theorem issue_queued {s : State} (h : Queued s) (r : ReqId) (k : KeyId) (mux : Bool) : Queued (issue s r k mux) := by
  unfold issue
  have f0 := tokenOf_qframe none s k
  generalize tokenOf s k = tk at f0
  obtain ⟨s0, t⟩ := tk
  simp only [] at f0 ⊢
  have f2 : QFrame none (noteDropped { s0 with idle := upd s0.idle t (idlePop s0 (s0.idle t)).2.1 } (idlePop s0 (s0.idle t)).2.2) s0 :=
    QFrame.of_eq rfl rfl rfl
  have h2 := h.frame (f2.trans f0)
  cases hp : (idlePop s0 (s0.idle t)).1 with
  | none => simp only []; exact issueMissing_queued h2 r k mux t
  | some c => simp only []; exact issueFound_queued h2 r k mux t c

/-! ### polling -/

theorem pollWaiter_qframe (s : State) (r : ReqId) (c : Checkout) : QFrame none (pollWaiter s r c).1 s := by
  unfold pollWaiter
  cases c.waiter with
  | idle =>
    simp only []
    split
    · exact QFrame.setChan s r .rxGone (by intro h; cases h)
    · exact QFrame.refl _ s
    · exact QFrame.refl _ s
  | connecting =>
    simp only []
    split
    · exact QFrame.setChan s r .rxGone (by intro h; cases h)
    · exact QFrame.refl _ s
    · exact QFrame.refl _ s
  | noPool => exact QFrame.refl _ s

theorem pollCheckout_qframe (s : State) (r : ReqId) (c : Checkout) : QFrame none (pollCheckout s r c).1 s := by
  have f1 := pollWaiter_qframe s r c
  unfold pollCheckout
  generalize pollWaiter s r c = pw at f1
  obtain ⟨s1, cw, w⟩ := pw
  simp only [] at f1 ⊢
  cases w with
  | none => exact f1
  | some w' =>
    cases w' with
    | some p => exact f1
    | none =>
      simp only []
      cases hin : cw.inner with
      | waiting => exact f1
      | connected =>
        simp only []
        cases hcn : cw.conn with
        | none => exact f1
        | some cid => exact (dropRx_qframe none s1 r).trans f1
      | connecting | delayDrop | delayed =>
        simp only []
        have f2 := (startDial_qframe none s1 r).trans f1
        cases hout : (s1.dial r).outcome with
        | none => exact f2
        | some out =>
          simp only []
          have f3 := (dropRx_qframe none (startDial s1 r) r).trans f2
          cases out with
          | failConnect => exact f3
          | failHandshake => exact f3
          | ok alpn =>
            simp only []
            have f4 : QFrame none (newConn (dropRx (startDial s1 r) r) { cw with inner := .connected, waiter := .noPool } alpn).1 s := by
              refine QFrame.trans ?_ f3; exact QFrame.of_eq rfl rfl rfl
            generalize newConn (dropRx (startDial s1 r) r) { cw with inner := .connected, waiter := .noPool } alpn = nc at f4
            obtain ⟨s4, cid⟩ := nc
            simp only [] at f4 ⊢
            have f5 := (registerConnected_qframe none s4 { cw with inner := .connected, waiter := .noPool } cid).trans f4
            generalize registerConnected s4 { cw with inner := .connected, waiter := .noPool } cid = rc at f5
            obtain ⟨s5, p⟩ := rc
            exact f5

/-- a poll followed by writing the checkout back -/
theorem poll_commit_queued {s : State} (h : Queued s) (r : ReqId) (c : Checkout) (hco : s.co r = some c) :
    Queued { (pollCheckout s r c).1 with co := upd (pollCheckout s r c).1.co r (some (pollCheckout s r c).2.1) } := by
  have f1 := pollCheckout_qframe s r c
  obtain ⟨m1, _, t1, _, _⟩ := pollCheckout_mfields s r c
  have hco1 : (pollCheckout s r c).1.co r = some c := by rw [m1.co]; exact hco
  exact (h.frame f1).frame (QFrame.setCo _ r c _ hco1 t1)

/-! ### dropping a checkout -/

theorem dropCheckout_queued {s : State} (h : Queued s) (r : ReqId) : Queued (dropCheckout s r) := by
  unfold dropCheckout
  cases hco : s.co r with
  | none => exact h
  | some c =>
    simp only []
    split
    · exact h
    · have f0 : QFrame none (takeConn s r c) s := by unfold takeConn; exact QFrame.setCo s r c _ hco rfl
      have c0 : (takeConn s r c).co r = some { c with conn := none } := by unfold takeConn; simp
      have m1 := returnUnused_mframe (takeConn s r c) c
      have f1 := (returnUnused_qframe none (takeConn s r c) c).trans f0
      have c1 : (returnUnused (takeConn s r c) c).co r = some { c with conn := none } := by rw [m1.co]; exact c0
      generalize returnUnused (takeConn s r c) c = s1 at f1 c1
      split
      · have m2 := (dropRx_mframe (spawn s1 (.delayed r)) r).trans (spawn_mframe s1 (.delayed r))
        have f2 := (dropRx_qframe none (spawn s1 (.delayed r)) r).trans ((spawn_qframe none s1 (.delayed r)).trans f1)
        have c2 : (dropRx (spawn s1 (.delayed r)) r).co r = some { c with conn := none } := by rw [m2.co]; exact c1
        exact (h.frame f2).frame (QFrame.setCo _ r _ _ c2 rfl)
      · have m2 := (dropRx_mframe (cancelIfOwner s1 c) r).trans (cancelIfOwner_mframe s1 c)
        have f2 := (dropRx_qframe none (cancelIfOwner s1 c) r).trans ((cancelIfOwner_qframe none s1 c).trans f1)
        have c2 : (dropRx (cancelIfOwner s1 c) r).co r = some { c with conn := none } := by rw [m2.co]; exact c1
        exact (h.frame f2).frame (QFrame.setCo _ r _ _ c2 rfl)

/-! ### tasks -/

theorem runWhenReady_queued {s : State} (h : Queued s) (i : Nat) (c : ConnId) (t : Token) (hp : Bool) :
    Queued (runWhenReady s i c t hp) := by
  have h1 : Queued (removeTask s i) := h.frame (QFrame.of_eq rfl rfl rfl)
  unfold runWhenReady
  split
  · exact h1
  · split
    · exact h1.frame (QFrame.of_eq rfl rfl rfl)
    · split
      · exact h
      · simp only []
        split
        · exact h1.frame (push_qframe none _ _ _)
        · exact h1.frame (QFrame.of_eq rfl rfl rfl)

theorem runDelayed_queued {s : State} (h : Queued s) (i : Nat) (r : ReqId) : Queued (runDelayed s i r) := by
  unfold runDelayed
  cases hco : s.co r with
  | none => exact h.frame (QFrame.of_eq rfl rfl rfl)
  | some c =>
    simp only []
    have h2 := poll_commit_queued h r c hco
    generalize pollCheckout s r c = res at h2
    obtain ⟨s1, c', pr⟩ := res
    simp only [] at h2 ⊢
    have tail : Queued { (cancelIfOwner (removeTask { s1 with co := upd s1.co r (some c') } i) c') with
        co := upd (cancelIfOwner (removeTask { s1 with co := upd s1.co r (some c') } i) c').co r (some { c' with marker := false }) } := by
      have f3 : QFrame none (removeTask { s1 with co := upd s1.co r (some c') } i) { s1 with co := upd s1.co r (some c') } :=
        QFrame.of_eq rfl rfl rfl
      have f4 := (cancelIfOwner_qframe none (removeTask { s1 with co := upd s1.co r (some c') } i) c').trans f3
      have h4 := h2.frame f4
      have hr4 : (cancelIfOwner (removeTask { s1 with co := upd s1.co r (some c') } i) c').co r = some c' := by
        rw [cancelIfOwner_co]; show upd s1.co r (some c') r = some c'; simp
      exact h4.frame (QFrame.setCo _ r c' _ hr4 rfl)
    cases pr with
    | pending => exact h2
    | got p => exact tail.frame (dropPooled_qframe none _ p)
    | err k => exact tail
    | panic => exact tail

theorem runTask_queued {s : State} (h : Queued s) (i : Nat) : Queued (runTask s i) := by
  unfold runTask
  cases ht : taskOf s i with
  | none => exact h
  | some t =>
    cases t with
    | whenReady c tk hp => exact runWhenReady_queued h i c tk hp
    | delayed r => exact runDelayed_queued h i r

theorem runAll_queued : ∀ (fuel : Nat) (s : State), Queued s → Queued (runAll fuel s)
  | 0, _, h => h
  | fuel + 1, s, h => by
    simp only [runAll]
    split
    · exact h
    · rename_i i q hq
      have hq' : Queued { s with runq := q } := h.frame (QFrame.of_eq rfl rfl rfl)
      exact runAll_queued fuel _ (runTask_queued hq' i)

theorem abortTask_queued {s : State} (h : Queued s) (i : Nat) : Queued (abortTask s i) := by
  unfold abortTask
  cases ht : taskOf s i with
  | none => exact h
  | some t =>
    cases t with
    | whenReady c tk hp => exact h.frame (QFrame.of_eq rfl rfl rfl)
    | delayed r =>
      simp only []
      cases hco : s.co r with
      | none => exact h.frame (QFrame.of_eq rfl rfl rfl)
      | some c =>
        simp only []
        have f3 : QFrame none (removeTask s i) s := QFrame.of_eq rfl rfl rfl
        have f4 := (cancelIfOwner_qframe none (removeTask s i) c).trans f3
        have h4 := h.frame f4
        have hr4 : (cancelIfOwner (removeTask s i) c).co r = some c := by rw [cancelIfOwner_co]; exact hco
        exact h4.frame (QFrame.setCo _ r c _ hr4 rfl)

theorem abortAll_queued : ∀ (fuel : Nat) (s : State), Queued s → Queued (abortAll fuel s)
  | 0, _, h => h
  | fuel + 1, s, h => by
    simp only [abortAll]
    split
    · exact h.frame (QFrame.of_eq rfl rfl rfl)
    · exact abortAll_queued fuel _ (abortTask_queued h _)

theorem step_queued (s : State) (op : Op) (h : Queued s) : Queued (step s op).1 := by
  cases op with
  | issue r k mux =>
    simp only [step]
    cases hco : s.co r with
    | some _ => exact h
    | none => exact issue_queued h r k mux
  | poll r =>
    simp only [step]
    cases hco : s.co r with
    | none => exact h
    | some c =>
      simp only []
      split
      · exact h
      · have h2 := poll_commit_queued h r c hco
        generalize pollCheckout s r c = res at h2
        obtain ⟨s1, c', pr⟩ := res
        simp only [] at h2 ⊢
        cases pr with
        | pending => exact h2
        | err k => exact dropCheckout_queued h2 r
        | panic => exact dropCheckout_queued h2 r
        | got p =>
          simp only []
          have h3 : Queued { s1 with co := upd s1.co r (some c'), held := upd s1.held r (some p) } :=
            h2.frame (QFrame.of_eq rfl rfl rfl)
          have h4 : Queued (if canShare { s1 with co := upd s1.co r (some c'), held := upd s1.held r (some p) } p.conn
              then { s1 with co := upd s1.co r (some c'), held := upd s1.held r (some p) }
              else setConn { s1 with co := upd s1.co r (some c'), held := upd s1.held r (some p) } p.conn (fun k => { k with busy := true })) := by
            split
            · exact h3
            · exact h3.frame (setConn_qframe none _ _ _)
          exact dropCheckout_queued h4 r
  | cancel r =>
    simp only [step]
    cases hh : s.held r with
    | some p =>
      simp only []
      exact (h.frame (QFrame.of_eq (s' := { s with held := upd s.held r none }) rfl rfl rfl)).frame (dropPooled_qframe none _ p)
    | none =>
      simp only []
      cases hco : s.co r with
      | none => exact h
      | some c =>
        simp only []
        split
        · exact dropCheckout_queued h r
        · exact h
  | cancelOff r =>
    simp only [step]
    cases hh : s.held r with
    | some p =>
      simp only []
      exact abortTask_queued ((h.frame (QFrame.of_eq (s' := { s with held := upd s.held r none }) rfl rfl rfl)).frame (dropPooled_qframe none _ p)) _
    | none => exact h
  | dialDone r o =>
    simp only [step]
    split
    · exact h.frame (QFrame.of_eq rfl rfl rfl)
    · exact h
  | finish r =>
    simp only [step]
    cases hh : s.held r with
    | some p =>
      simp only []
      exact (h.frame (QFrame.of_eq (s' := { s with held := upd s.held r none }) rfl rfl rfl)).frame (dropPooled_qframe none _ p)
    | none => exact h
  | connReady c =>
    simp only [step]
    split
    · exact (h.frame (setConn_qframe none s c _)).frame (QFrame.of_eq rfl rfl rfl)
    · exact h
  | connClose c =>
    simp only [step]
    split
    · exact (h.frame (setConn_qframe none s c _)).frame (QFrame.of_eq rfl rfl rfl)
    · exact h
  | connFail c =>
    simp only [step]
    split
    · split
      · exact (h.frame (setConn_qframe none s c _)).frame (QFrame.of_eq rfl rfl rfl)
      · exact h
    · exact h
  | run => exact runAll_queued _ s h
  | tick ms => exact h.frame (QFrame.of_eq rfl rfl rfl)
  | mark => exact h
  | shutdown => exact abortAll_queued _ s h

theorem run_queued : ∀ (ops : List Op) (s : State), Queued s → Queued (run s ops).1
  | [], _, h => h
  | op :: ops, s, h => by
    simp only [run]
    exact run_queued ops _ (step_queued s op h)

/-! ### what the delivery loop does with a queue that contains a listener -/

theorem pushLoop_delivers (token : Token) (c : ConnId) : ∀ (q : List ReqId) (s : State), canShare s c = false →
    (∃ x, x ∈ q ∧ s.chan x = .empty) →
    (pushLoop s token c q).2 = true ∧ ∃ x, x ∈ q ∧ (pushLoop s token c q).1.chan x = .full ⟨c, token, true⟩
  | [], _, _, ⟨x, hx, _⟩ => by cases hx
  | r0 :: rest, s, hns, ⟨x, hx, he⟩ => by
    simp only [pushLoop]
    split
    · simp only [hns, Bool.false_eq_true, ↓reduceIte]
      exact ⟨by first | rfl | trivial, r0, List.mem_cons_self, by simp⟩
    · rename_i hne
      have hx' : x ∈ rest := by
        rcases List.mem_cons.mp hx with h | h
        · subst h; exact absurd he (fun h => hne h)
        · exact h
      obtain ⟨d, y, hy, hc⟩ := pushLoop_delivers token c rest s hns ⟨x, hx', he⟩
      exact ⟨d, y, List.mem_cons_of_mem _ hy, hc⟩

end Hd.Pool
