import HdModel.Model.Pool
import HdModel.Lemmas.PoolFrame
/-! The marker-owner invariant over all reachable states (C03, C04).

    Every connection-in-progress marker that is in place was placed by exactly one checkout, which
    still runs – it is alive, or a delayed-drop task carries its attempt on – and whose attempt id is
    the one stored with the marker. Checkouts that placed a marker which has since been removed
    (somebody else provided a shareable connection) may still be around (*stale holders*); their ids
    differ from every marker in place, so `cancel_connection(token, attempt)` by them is a no-op.

    Attempting this proof for the code as it stood (ownership as a `bool`) failed at exactly this
    point and produced the schedule of `corpus/C04/fixed.ops` (last entry); see DESIGN.md §8. -/
namespace Hd.Pool

/-- the marker a checkout placed: (token, attempt id) -/
def holder (s : State) (r : ReqId) : Option (Token × Nat) :=
  match s.co r with
  | some c => if c.marker then some (c.token, c.attempt) else none
  | none => none

/-- the checkout of request `r` still runs: alive, or continued by a delayed-drop task -/
def Running (s : State) (r : ReqId) (c : Checkout) : Prop :=
  c.alive = true ∨ ∃ i, (i, Task.delayed r) ∈ s.tasks

structure TaskIds (s : State) : Prop where
  nodup : (s.tasks.map (·.1)).Nodup
  lt : ∀ e, e ∈ s.tasks → e.1 < s.nextTask

/-- The invariant; `ex` exempts one request from the "still runs" clause (the request whose delayed
    task is being retired, between the removal of the task and the clearing of its marker flag). -/
structure MInvE (ex : Option ReqId) (s : State) : Prop where
  bound : ∀ r t a, holder s r = some (t, a) → a ≤ s.attempts
  uniq  : ∀ r r' t t' a, holder s r = some (t, a) → holder s r' = some (t', a) → r = r'
  own   : ∀ t, t ∈ s.connecting → ∃ r, holder s r = some (t, s.owner t)
  nodup : s.connecting.Nodup
  run   : ∀ r c, some r ≠ ex → s.co r = some c → c.marker = true → Running s r c
  tids  : TaskIds s

abbrev MInv (s : State) : Prop := MInvE none s

theorem MInvE.weaken {s : State} {ex : Option ReqId} (h : MInvE none s) : MInvE ex s :=
  ⟨h.bound, h.uniq, h.own, h.nodup, fun r c _ hc hm => h.run r c (by intro e; cases e) hc hm, h.tids⟩

theorem MInvE.of_none_co {s : State} {r : ReqId} (h : MInvE (some r) s) (hco : s.co r = none) : MInv s :=
  ⟨h.bound, h.uniq, h.own, h.nodup, fun x cx _ hcx hmx => by
    by_cases e : x = r
    · subst e; rw [hco] at hcx; cases hcx
    · exact h.run x cx (by intro e'; exact e (Option.some.inj e')) hcx hmx, h.tids⟩

theorem minv_init (cfg : Config) : MInv (init cfg) := by
  refine ⟨?_, ?_, ?_, ?_, ?_, ?_⟩
  · intro r t a h; simp [holder, init] at h
  · intro r r' t t' a h; simp [holder, init] at h
  · intro t h; simp [init] at h
  · simp [init]
  · intro r c _ h; simp [init] at h
  · exact ⟨by simp [init], by intro e h; simp [init] at h⟩

/-! ### frames: primitives that neither place nor retire a holder -/

structure MFrame (s' s : State) : Prop where
  co : s'.co = s.co
  owner : s'.owner = s.owner
  attempts : s'.attempts = s.attempts
  sub : s'.connecting.Sublist s.connecting
  tasks : ∀ e, e ∈ s.tasks → e ∈ s'.tasks
  tids : TaskIds s → TaskIds s'

theorem MFrame.refl (s : State) : MFrame s s := ⟨rfl, rfl, rfl, List.Sublist.refl _, fun _ h => h, fun h => h⟩

theorem MFrame.trans {a b c : State} (h1 : MFrame a b) (h2 : MFrame b c) : MFrame a c :=
  ⟨h1.co.trans h2.co, h1.owner.trans h2.owner, h1.attempts.trans h2.attempts, h1.sub.trans h2.sub,
   fun e h => h1.tasks e (h2.tasks e h), fun h => h1.tids (h2.tids h)⟩

theorem MFrame.of_eq {s' s : State} (hco : s'.co = s.co) (ho : s'.owner = s.owner) (ha : s'.attempts = s.attempts)
    (hc : s'.connecting = s.connecting) (ht : s'.tasks = s.tasks) (hn : s'.nextTask = s.nextTask) : MFrame s' s :=
  ⟨hco, ho, ha, by rw [hc]; exact List.Sublist.refl _, fun e h => by rw [ht]; exact h,
   fun h => ⟨by rw [ht]; exact h.nodup, fun e he => by rw [hn]; exact h.lt e (by rw [← ht]; exact he)⟩⟩

theorem holder_congr {s' s : State} (h : s'.co = s.co) (r : ReqId) : holder s' r = holder s r := by
  unfold holder; rw [h]

theorem MInvE.frame {s s' : State} {ex : Option ReqId} (h : MInvE ex s) (f : MFrame s' s) : MInvE ex s' := by
  refine ⟨?_, ?_, ?_, ?_, ?_, f.tids h.tids⟩
  · intro r t a hh; rw [holder_congr f.co] at hh; rw [f.attempts]; exact h.bound r t a hh
  · intro r r' t t' a h1 h2; rw [holder_congr f.co] at h1 h2; exact h.uniq r r' t t' a h1 h2
  · intro t ht
    obtain ⟨r, hr⟩ := h.own t (f.sub.subset ht)
    exact ⟨r, by rw [holder_congr f.co, f.owner]; exact hr⟩
  · exact h.nodup.sublist f.sub
  · intro r c hx hc hm
    rw [f.co] at hc
    rcases h.run r c hx hc hm with ha | ⟨i, hi⟩
    · exact Or.inl ha
    · exact Or.inr ⟨i, f.tasks _ hi⟩

theorem spawn_mframe (s : State) (t : Task) : MFrame (spawn s t) s := by
  refine ⟨rfl, rfl, rfl, List.Sublist.refl _, ?_, ?_⟩
  · intro e he; show e ∈ s.tasks ++ [(s.nextTask, t)]; exact List.mem_append_left _ he
  · intro h
    refine ⟨?_, ?_⟩
    · show ((s.tasks ++ [(s.nextTask, t)]).map (·.1)).Nodup
      rw [List.map_append, List.nodup_append]
      refine ⟨h.nodup, by simp, ?_⟩
      intro a ha b hb
      simp only [List.map_cons, List.map_nil, List.mem_singleton] at hb
      obtain ⟨e, he, rfl⟩ := List.mem_map.mp ha
      have := h.lt e he
      intro heq; rw [hb] at heq; omega
    · intro e he
      show e.1 < s.nextTask + 1
      have he' : e ∈ s.tasks ++ [(s.nextTask, t)] := he
      rcases List.mem_append.mp he' with h1 | h1
      · have := h.lt e h1; omega
      · simp only [List.mem_singleton] at h1; subst h1; simp

theorem dropPooled_mframe (s : State) (p : Pooled) : MFrame (dropPooled s p) s := by
  unfold dropPooled; split
  · exact MFrame.refl s
  · exact spawn_mframe s _

theorem dropRx_mframe (s : State) (r : ReqId) : MFrame (dropRx s r) s := by
  unfold dropRx
  split
  · exact (dropPooled_mframe _ _).trans (MFrame.of_eq rfl rfl rfl rfl rfl rfl)
  · exact MFrame.of_eq rfl rfl rfl rfl rfl rfl
  · exact MFrame.refl s

theorem pushLoop_mframe (token : Token) (c : ConnId) : ∀ (q : List ReqId) (s : State), MFrame (pushLoop s token c q).1 s
  | [], s => by simp only [pushLoop]; exact MFrame.of_eq rfl rfl rfl rfl rfl rfl
  | r0 :: rest, s => by
    simp only [pushLoop]
    split
    · split
      · exact (pushLoop_mframe token c rest _).trans (MFrame.of_eq rfl rfl rfl rfl rfl rfl)
      · exact MFrame.of_eq rfl rfl rfl rfl rfl rfl
    · exact pushLoop_mframe token c rest s

theorem clearMarker_mframe (s : State) (t : Token) (c : ConnId) : MFrame (clearMarker s t c) s := by
  unfold clearMarker; split
  · exact ⟨rfl, rfl, rfl, List.erase_sublist, fun _ h => h, fun h => ⟨h.nodup, h.lt⟩⟩
  · exact MFrame.refl s

theorem push_mframe (s : State) (t : Token) (c : ConnId) : MFrame (push s t c) s := by
  unfold push
  simp only []
  have h1 := (pushLoop_mframe t c ((clearMarker s t c).waiting t) (clearMarker s t c)).trans (clearMarker_mframe s t c)
  generalize pushLoop (clearMarker s t c) t c ((clearMarker s t c).waiting t) = pl at h1
  obtain ⟨x1, d⟩ := pl
  simp only [] at h1 ⊢
  split
  · exact h1
  · split
    · refine MFrame.trans ?_ h1; exact MFrame.of_eq rfl rfl rfl rfl rfl rfl
    · split
      · exact h1
      · refine MFrame.trans ?_ h1; exact MFrame.of_eq rfl rfl rfl rfl rfl rfl

theorem dropSenders_mframe : ∀ (l : List ReqId) (s : State), MFrame (dropSenders s l) s
  | [], s => MFrame.refl s
  | r0 :: rest, s => by
    simp only [dropSenders]
    refine (dropSenders_mframe rest _).trans ?_
    split
    · exact MFrame.of_eq rfl rfl rfl rfl rfl rfl
    · exact MFrame.refl s

theorem cancelConnection_mframe (s : State) (t : Token) : MFrame (cancelConnection s t) s := by
  unfold cancelConnection; split
  · simp only []
    have f1 : MFrame ({ s with connecting := s.connecting.erase t } : State) s :=
      ⟨rfl, rfl, rfl, List.erase_sublist, fun _ h => h, fun h => ⟨h.nodup, h.lt⟩⟩
    have f2 := dropSenders_mframe (s.waiting t) ({ s with connecting := s.connecting.erase t } : State)
    refine MFrame.trans ?_ (f2.trans f1); exact MFrame.of_eq rfl rfl rfl rfl rfl rfl
  · exact MFrame.refl s

theorem cancelIfOwner_mframe (s : State) (c : Checkout) : MFrame (cancelIfOwner s c) s := by
  unfold cancelIfOwner; split
  · exact cancelConnection_mframe s _
  · exact MFrame.refl s

theorem returnUnused_mframe (s : State) (c : Checkout) : MFrame (returnUnused s c) s := by
  unfold returnUnused
  split
  · split
    · exact push_mframe _ _ _
    · split
      · exact MFrame.refl s
      · exact MFrame.of_eq rfl rfl rfl rfl rfl rfl
  · exact MFrame.refl s

theorem startDial_mframe (s : State) (r : ReqId) : MFrame (startDial s r) s := by
  unfold startDial; split
  · exact MFrame.refl s
  · exact MFrame.of_eq rfl rfl rfl rfl rfl rfl

theorem setConn_mframe (s : State) (c : ConnId) (f : Conn → Conn) : MFrame (setConn s c f) s := by
  unfold setConn; split
  · exact MFrame.of_eq rfl rfl rfl rfl rfl rfl
  · exact MFrame.refl s

theorem registerConnected_mframe (s : State) (c : Checkout) (cid : ConnId) : MFrame (registerConnected s c cid).1 s := by
  unfold registerConnected; split
  · exact push_mframe _ _ _
  · exact MFrame.refl s

theorem tokenOf_mframe (s : State) (k : KeyId) : MFrame (tokenOf s k).1 s := by
  unfold tokenOf; split
  · exact MFrame.refl s
  · exact MFrame.of_eq rfl rfl rfl rfl rfl rfl

/-! ### writing a checkout -/

theorem holder_upd_other {s : State} {r x : ReqId} {v : Option Checkout} (h : x ≠ r) :
    holder { s with co := upd s.co r v } x = holder s x := by
  unfold holder; simp [upd, h]

theorem holder_upd_same {s : State} {r : ReqId} {c' : Checkout} :
    holder { s with co := upd s.co r (some c') } r = if c'.marker then some (c'.token, c'.attempt) else none := by
  unfold holder; simp

/-- writing back a checkout whose marker fields are unchanged, and which still runs if it did -/
theorem MInvE.setCo {s : State} {ex : Option ReqId} (h : MInvE ex s) (r : ReqId) (c c' : Checkout) (hco : s.co r = some c)
    (hm : c'.marker = c.marker) (ht : c'.token = c.token) (ha : c'.attempt = c.attempt)
    (hrun : some r ≠ ex → c.marker = true → Running s r c → Running s r c') :
    MInvE ex { s with co := upd s.co r (some c') } := by
  have hh : ∀ x, holder { s with co := upd s.co r (some c') } x = holder s x := by
    intro x
    by_cases e : x = r
    · subst e; rw [holder_upd_same]; unfold holder; rw [hco, hm, ht, ha]
    · exact holder_upd_other e
  refine ⟨?_, ?_, ?_, h.nodup, ?_, ⟨h.tids.nodup, h.tids.lt⟩⟩
  · intro x t a hx; rw [hh] at hx; exact h.bound x t a hx
  · intro x x' t t' a h1 h2; rw [hh] at h1 h2; exact h.uniq x x' t t' a h1 h2
  · intro t ht'
    obtain ⟨x, hx⟩ := h.own t ht'
    exact ⟨x, by rw [hh]; exact hx⟩
  · intro x cx hx hcx hmx
    by_cases e : x = r
    · subst e
      simp only [upd_same, Option.some.injEq] at hcx
      subst hcx
      exact hrun hx (by rw [← hm]; exact hmx) (h.run x c hx hco (by rw [← hm]; exact hmx))
    · have : s.co x = some cx := by simpa [upd, e] using hcx
      exact h.run x cx hx this hmx

/-- installing a checkout that holds no marker -/
theorem MInvE.newCo {s : State} {ex : Option ReqId} (h : MInvE ex s) (r : ReqId) (c' : Checkout) (hco : s.co r = none)
    (hm : c'.marker = false) : MInvE ex { s with co := upd s.co r (some c') } := by
  have hh : ∀ x, holder { s with co := upd s.co r (some c') } x = holder s x := by
    intro x
    by_cases e : x = r
    · subst e; rw [holder_upd_same]; unfold holder; rw [hco, hm]; rfl
    · exact holder_upd_other e
  refine ⟨?_, ?_, ?_, h.nodup, ?_, ⟨h.tids.nodup, h.tids.lt⟩⟩
  · intro x t a hx; rw [hh] at hx; exact h.bound x t a hx
  · intro x x' t t' a h1 h2; rw [hh] at h1 h2; exact h.uniq x x' t t' a h1 h2
  · intro t ht'
    obtain ⟨x, hx⟩ := h.own t ht'
    exact ⟨x, by rw [hh]; exact hx⟩
  · intro x cx hx hcx hmx
    by_cases e : x = r
    · subst e
      simp only [upd_same, Option.some.injEq] at hcx
      subst hcx; rw [hm] at hmx; cases hmx
    · have : s.co x = some cx := by simpa [upd, e] using hcx
      exact h.run x cx hx this hmx

/-- A checkout gives up its marker flag. Allowed when it is not the owner of a marker in place: the
    marker was cancelled, or it is a later attempt's. The exemption ends here. -/
theorem MInvE.dropMarker {s : State} {ex : Option ReqId} (h : MInvE ex s) (r : ReqId) (c c' : Checkout) (hco : s.co r = some c)
    (hx : ex = none ∨ ex = some r)
    (hfree : c.marker = true → c.token ∈ s.connecting → s.owner c.token ≠ c.attempt)
    (hm : c'.marker = false) : MInv { s with co := upd s.co r (some c') } := by
  have hr : holder { s with co := upd s.co r (some c') } r = none := by rw [holder_upd_same, hm]; rfl
  have hh : ∀ x, x ≠ r → holder { s with co := upd s.co r (some c') } x = holder s x := fun x e => holder_upd_other e
  have hsub : ∀ x t a, holder { s with co := upd s.co r (some c') } x = some (t, a) → holder s x = some (t, a) := by
    intro x t a hx'
    by_cases e : x = r
    · subst e; rw [hr] at hx'; cases hx'
    · rw [hh x e] at hx'; exact hx'
  refine ⟨?_, ?_, ?_, h.nodup, ?_, ⟨h.tids.nodup, h.tids.lt⟩⟩
  · intro x t a hx'; exact h.bound x t a (hsub x t a hx')
  · intro x x' t t' a h1 h2; exact h.uniq x x' t t' a (hsub _ _ _ h1) (hsub _ _ _ h2)
  · intro t ht'
    obtain ⟨x, hx'⟩ := h.own t ht'
    by_cases e : x = r
    · subst e
      exfalso
      unfold holder at hx'
      rw [hco] at hx'
      simp only [] at hx'
      split at hx'
      · rename_i hmk
        simp only [Option.some.injEq, Prod.mk.injEq] at hx'
        obtain ⟨e1, e2⟩ := hx'
        exact hfree hmk (by rw [e1]; exact ht') (by rw [e1, e2])
      · cases hx'
    · exact ⟨x, by rw [hh x e]; exact hx'⟩
  · intro x cx _ hcx hmx
    by_cases e : x = r
    · subst e
      simp only [upd_same, Option.some.injEq] at hcx
      subst hcx; rw [hm] at hmx; cases hmx
    · have hcx' : s.co x = some cx := by simpa [upd, e] using hcx
      refine h.run x cx ?_ hcx' hmx
      rcases hx with hx | hx <;> rw [hx]
      · intro e'; cases e'
      · intro e'; exact e (Option.some.inj e')

/-! ### issue -/

/-- a new attempt places the marker: a new holder with a fresh id, alive -/
theorem MInvE.newHolder {s s' : State} (h : MInv s) (r : ReqId) (chk : Checkout) (t : Token) (hr : s.co r = none)
    (hnm : t ∉ s.connecting) (hm : chk.marker = true) (ht : chk.token = t) (ha : chk.attempt = s.attempts + 1)
    (hal : chk.alive = true)
    (hco' : s'.co = upd s.co r (some chk)) (hcn' : s'.connecting = t :: s.connecting) (hat : s'.attempts = s.attempts + 1)
    (how : s'.owner = upd s.owner t (s.attempts + 1)) (hts : s'.tasks = s.tasks) (hnt : s'.nextTask = s.nextTask) :
    MInv s' := by
  have hh : ∀ x, x ≠ r → holder s' x = holder s x := by
    intro x e; unfold holder; rw [hco']; simp [upd, e]
  have hrr : holder s' r = some (t, s.attempts + 1) := by
    unfold holder; rw [hco']; simp [hm, ht, ha]
  have hold : holder s r = none := by unfold holder; rw [hr]
  refine ⟨?_, ?_, ?_, ?_, ?_, ⟨by rw [hts]; exact h.tids.nodup, fun e he => by rw [hnt]; exact h.tids.lt e (by rw [← hts]; exact he)⟩⟩
  · intro x t' a hx
    by_cases e : x = r
    · subst e; rw [hrr] at hx; simp only [Option.some.injEq, Prod.mk.injEq] at hx; rw [hat]; omega
    · rw [hh x e] at hx; have := h.bound x t' a hx; rw [hat]; omega
  · intro x x' t1 t2 a h1 h2
    by_cases e : x = r
    · by_cases e' : x' = r
      · rw [e, e']
      · subst e; rw [hrr] at h1; rw [hh x' e'] at h2
        simp only [Option.some.injEq, Prod.mk.injEq] at h1
        have := h.bound x' t2 a h2; omega
    · by_cases e' : x' = r
      · subst e'; rw [hrr] at h2; rw [hh x e] at h1
        simp only [Option.some.injEq, Prod.mk.injEq] at h2
        have := h.bound x t1 a h1; omega
      · rw [hh x e] at h1; rw [hh x' e'] at h2; exact h.uniq x x' t1 t2 a h1 h2
  · intro t' ht'
    have ht'' : t' ∈ t :: s.connecting := by rw [← hcn']; exact ht'
    by_cases e : t' = t
    · subst e; exact ⟨r, by rw [hrr, how]; simp⟩
    · have hm' : t' ∈ s.connecting := by
        rcases List.mem_cons.mp ht'' with h1 | h1
        · exact absurd h1 e
        · exact h1
      obtain ⟨x, hx⟩ := h.own t' hm'
      have hxr : x ≠ r := by intro e'; subst e'; rw [hold] at hx; cases hx
      refine ⟨x, ?_⟩
      rw [hh x hxr, how]
      simp only [upd, e, ↓reduceIte]; exact hx
  · rw [hcn']
    exact List.nodup_cons.mpr ⟨hnm, h.nodup⟩
  · intro x cx _ hcx hmx
    rw [hco'] at hcx
    by_cases e : x = r
    · subst e
      simp only [upd_same, Option.some.injEq] at hcx
      subst hcx; exact Or.inl hal
    · have hcx' : s.co x = some cx := by simpa [upd, e] using hcx
      rcases h.run x cx (by intro e'; cases e') hcx' hmx with h1 | ⟨i, hi⟩
      · exact Or.inl h1
      · exact Or.inr ⟨i, by rw [hts]; exact hi⟩


theorem issueFound_minv {s : State} (h : MInv s) (r : ReqId) (k : KeyId) (mux : Bool) (t : Token) (c : ConnId)
    (hr : s.co r = none) : MInv (issueFound s r k mux t c) := by
  unfold issueFound
  simp only []
  have f1 : MFrame (if canShare s c then { s with idle := upd s.idle t ((c, s.now) :: s.idle t) } else s) s := by
    split
    · exact MFrame.of_eq rfl rfl rfl rfl rfl rfl
    · exact MFrame.refl s
  have h1 := h.frame f1
  have c1 : (if canShare s c then { s with idle := upd s.idle t ((c, s.now) :: s.idle t) } else s).co r = none := by
    rw [f1.co]; exact hr
  generalize (if canShare s c then { s with idle := upd s.idle t ((c, s.now) :: s.idle t) } else s) = s1 at h1 c1
  have h2 : MInv { s1 with chan := upd s1.chan r .txGone } := h1.frame (MFrame.of_eq rfl rfl rfl rfl rfl rfl)
  exact h2.newCo r _ c1 rfl

theorem issueMissing_minv {s : State} (h : MInv s) (r : ReqId) (k : KeyId) (mux : Bool) (t : Token)
    (hr : s.co r = none) : MInv (issueMissing s r k mux t) := by
  unfold issueMissing
  simp only []
  have h0 : MInv { s with waiting := upd s.waiting t (s.waiting t ++ [r]), chan := upd s.chan r .empty } :=
    h.frame (MFrame.of_eq rfl rfl rfl rfl rfl rfl)
  split
  · exact h0.newCo r _ hr rfl
  · rename_i hnc
    cases mux with
    | false =>
      simp only [Bool.false_eq_true, ↓reduceIte]
      exact h0.newCo r _ hr rfl
    | true =>
      simp only [↓reduceIte]
      have hnm : t ∉ s.connecting := by
        intro hm; apply hnc; simpa using hm
      exact h.newHolder r _ t hr hnm rfl rfl rfl rfl rfl rfl rfl rfl rfl rfl

theorem issue_minv {s : State} (h : MInv s) (r : ReqId) (k : KeyId) (mux : Bool) (hr : s.co r = none) :
    MInv (issue s r k mux) := by
  unfold issue
  have f0 := tokenOf_mframe s k
  generalize tokenOf s k = tk at f0
  obtain ⟨s0, t⟩ := tk
  simp only [] at f0 ⊢
  have f2 : MFrame (noteDropped { s0 with idle := upd s0.idle t (idlePop s0 (s0.idle t)).2.1 } (idlePop s0 (s0.idle t)).2.2) s0 :=
    MFrame.of_eq rfl rfl rfl rfl rfl rfl
  have h2 := h.frame (f2.trans f0)
  have hr2 : (noteDropped { s0 with idle := upd s0.idle t (idlePop s0 (s0.idle t)).2.1 } (idlePop s0 (s0.idle t)).2.2).co r = none := by
    rw [(f2.trans f0).co]; exact hr
  cases hp : (idlePop s0 (s0.idle t)).1 with
  | none => simp only []; exact issueMissing_minv h2 r k mux t hr2
  | some c => simp only []; exact issueFound_minv h2 r k mux t c hr2

end Hd.Pool

namespace Hd.Pool

/-! ### dropping a checkout -/

theorem cancelConnection_connecting (s : State) (t : Token) : (cancelConnection s t).connecting = s.connecting.erase t := by
  unfold cancelConnection; split
  · simp only []
    have : ∀ (l : List ReqId) (x : State), (dropSenders x l).connecting = x.connecting := by
      intro l
      induction l with
      | nil => intro x; rfl
      | cons a as ih => intro x; simp only [dropSenders]; rw [ih]; split <;> rfl
    show (dropSenders _ _).connecting = _
    rw [this]
  · rename_i hnc
    have : t ∉ s.connecting := by intro hm; apply hnc; simpa using hm
    exact (List.erase_of_not_mem this).symm

/-- after `cancelIfOwner`, the checkout is not the owner of a marker in place -/
theorem cancelIfOwner_free {s : State} (hn : s.connecting.Nodup) (c : Checkout) :
    c.marker = true → c.token ∈ (cancelIfOwner s c).connecting → (cancelIfOwner s c).owner c.token ≠ c.attempt := by
  intro hm hmem
  by_cases hcond : (c.marker && s.owner c.token == c.attempt) = true
  · have e : cancelIfOwner s c = cancelConnection s c.token := by unfold cancelIfOwner; rw [if_pos hcond]
    rw [e, cancelConnection_connecting] at hmem
    exact absurd hmem (by rw [hn.mem_erase_iff]; simp)
  · have e : cancelIfOwner s c = s := by unfold cancelIfOwner; rw [if_neg hcond]
    rw [e]
    intro heq
    apply hcond
    simp [hm, heq]

theorem dropCheckout_minv {s : State} (h : MInv s) (r : ReqId) : MInv (dropCheckout s r) := by
  unfold dropCheckout
  cases hco : s.co r with
  | none => exact h
  | some c =>
    simp only []
    split
    · exact h
    · have h0 : MInv (takeConn s r c) := by
        unfold takeConn
        exact h.setCo r c _ hco rfl rfl rfl (fun _ _ hr => hr)
      have c0 : (takeConn s r c).co r = some { c with conn := none } := by unfold takeConn; simp
      have f1 := returnUnused_mframe (takeConn s r c) c
      have h1 := h0.frame f1
      have c1 : (returnUnused (takeConn s r c) c).co r = some { c with conn := none } := by rw [f1.co]; exact c0
      generalize returnUnused (takeConn s r c) c = s1 at h1 c1
      split
      · -- continues in a delayed-drop task
        have f2 := (dropRx_mframe (spawn s1 (.delayed r)) r).trans (spawn_mframe s1 (.delayed r))
        have h2 := h1.frame f2
        have c2 : (dropRx (spawn s1 (.delayed r)) r).co r = some { c with conn := none } := by rw [f2.co]; exact c1
        have ht : (s1.nextTask, Task.delayed r) ∈ (dropRx (spawn s1 (.delayed r)) r).tasks := by
          apply (dropRx_mframe _ r).tasks
          show (s1.nextTask, Task.delayed r) ∈ s1.tasks ++ [(s1.nextTask, Task.delayed r)]
          simp
        exact h2.setCo r _ _ c2 rfl rfl rfl (fun _ _ _ => Or.inr ⟨_, ht⟩)
      · -- goes away: cancels the marker if it is the owner, gives up the flag
        have f2 := (dropRx_mframe (cancelIfOwner s1 c) r).trans (cancelIfOwner_mframe s1 c)
        have h2 := h1.frame f2
        have c2 : (dropRx (cancelIfOwner s1 c) r).co r = some { c with conn := none } := by rw [f2.co]; exact c1
        have hfree := cancelIfOwner_free h1.nodup c
        refine h2.dropMarker r _ _ c2 (Or.inl rfl) ?_ rfl
        intro hm hmem
        have f3 := dropRx_mframe (cancelIfOwner s1 c) r
        rw [f3.owner]
        exact hfree hm (f3.sub.subset hmem)

/-! ### polling a checkout -/

theorem pollWaiter_mfields (s : State) (r : ReqId) (c : Checkout) :
    MFrame (pollWaiter s r c).1 s ∧ (pollWaiter s r c).2.1.marker = c.marker ∧ (pollWaiter s r c).2.1.token = c.token ∧
    (pollWaiter s r c).2.1.attempt = c.attempt ∧ (pollWaiter s r c).2.1.alive = c.alive := by
  unfold pollWaiter
  cases c.waiter with
  | idle =>
    simp only []
    split
    · exact ⟨MFrame.of_eq rfl rfl rfl rfl rfl rfl, rfl, rfl, rfl, rfl⟩
    · exact ⟨MFrame.refl s, rfl, rfl, rfl, rfl⟩
    · exact ⟨MFrame.refl s, rfl, rfl, rfl, rfl⟩
  | connecting =>
    simp only []
    split
    · exact ⟨MFrame.of_eq rfl rfl rfl rfl rfl rfl, rfl, rfl, rfl, rfl⟩
    · exact ⟨MFrame.refl s, rfl, rfl, rfl, rfl⟩
    · exact ⟨MFrame.refl s, rfl, rfl, rfl, rfl⟩
  | noPool => exact ⟨MFrame.refl s, rfl, rfl, rfl, rfl⟩

theorem pollCheckout_mfields (s : State) (r : ReqId) (c : Checkout) :
    MFrame (pollCheckout s r c).1 s ∧ (pollCheckout s r c).2.1.marker = c.marker ∧ (pollCheckout s r c).2.1.token = c.token ∧
    (pollCheckout s r c).2.1.attempt = c.attempt ∧ (pollCheckout s r c).2.1.alive = c.alive := by
  obtain ⟨f1, a1, a2, a3, a4⟩ := pollWaiter_mfields s r c
  unfold pollCheckout
  generalize pollWaiter s r c = pw at f1 a1 a2 a3 a4
  obtain ⟨s1, cw, w⟩ := pw
  simp only [] at f1 a1 a2 a3 a4 ⊢
  cases w with
  | none => exact ⟨f1, a1, a2, a3, a4⟩
  | some w' =>
    cases w' with
    | some p => exact ⟨f1, a1, a2, a3, a4⟩
    | none =>
      simp only []
      cases hin : cw.inner with
      | waiting => exact ⟨f1, a1, a2, a3, a4⟩
      | connected =>
        simp only []
        cases hcn : cw.conn with
        | none => exact ⟨f1, a1, a2, a3, a4⟩
        | some cid => exact ⟨(dropRx_mframe s1 r).trans f1, a1, a2, a3, a4⟩
      | connecting | delayDrop | delayed =>
        simp only []
        have f2 := (startDial_mframe s1 r).trans f1
        cases hout : (s1.dial r).outcome with
        | none => exact ⟨f2, a1, a2, a3, a4⟩
        | some out =>
          simp only []
          have f3 := (dropRx_mframe (startDial s1 r) r).trans f2
          cases out with
          | failConnect => exact ⟨f3, a1, a2, a3, a4⟩
          | failHandshake => exact ⟨f3, a1, a2, a3, a4⟩
          | ok alpn =>
            simp only []
            have f4 : MFrame (newConn (dropRx (startDial s1 r) r) { cw with inner := .connected, waiter := .noPool } alpn).1 s := by
              refine MFrame.trans ?_ f3; exact MFrame.of_eq rfl rfl rfl rfl rfl rfl
            generalize newConn (dropRx (startDial s1 r) r) { cw with inner := .connected, waiter := .noPool } alpn = nc at f4
            obtain ⟨s4, cid⟩ := nc
            simp only [] at f4 ⊢
            have f5 := (registerConnected_mframe s4 { cw with inner := .connected, waiter := .noPool } cid).trans f4
            generalize registerConnected s4 { cw with inner := .connected, waiter := .noPool } cid = rc at f5
            obtain ⟨s5, p⟩ := rc
            exact ⟨f5, a1, a2, a3, a4⟩

/-! ### tasks -/

theorem fst_nodup_unique {α β} : ∀ (l : List (α × β)), (l.map (·.1)).Nodup → ∀ a x y, (a, x) ∈ l → (a, y) ∈ l → x = y
  | [], _, _, _, _, h, _ => by cases h
  | e :: rest, hn, a, x, y, hx, hy => by
    simp only [List.map_cons, List.nodup_cons] at hn
    rcases List.mem_cons.mp hx with h1 | h1
    · rcases List.mem_cons.mp hy with h2 | h2
      · rw [← h1] at h2; exact (Prod.mk.inj h2).2.symm
      · exfalso; apply hn.1; rw [← h1]; exact List.mem_map.mpr ⟨(a, y), h2, rfl⟩
    · rcases List.mem_cons.mp hy with h2 | h2
      · exfalso; apply hn.1; rw [← h2]; exact List.mem_map.mpr ⟨(a, x), h1, rfl⟩
      · exact fst_nodup_unique rest hn.2 a x y h1 h2

theorem taskOf_mem_id {s : State} {i : Nat} {t : Task} (h : taskOf s i = some t) : (i, t) ∈ s.tasks := by
  unfold taskOf at h
  cases hf : s.tasks.find? (·.1 == i) with
  | none => rw [hf] at h; cases h
  | some e =>
    rw [hf] at h
    simp only [Option.map_some, Option.some.injEq] at h
    have hm := List.mem_of_find?_eq_some hf
    have hp := List.find?_some hf
    simp only [beq_iff_eq] at hp
    obtain ⟨e1, e2⟩ := e
    simp only [] at hp h
    subst hp; subst h
    exact hm

theorem removeTask_tids {s : State} (h : TaskIds s) (i : Nat) : TaskIds (removeTask s i) := by
  refine ⟨?_, ?_⟩
  · show ((s.tasks.filter (·.1 != i)).map (·.1)).Nodup
    exact h.nodup.sublist (List.Sublist.map _ List.filter_sublist)
  · intro e he
    have he' : e ∈ s.tasks.filter (·.1 != i) := he
    exact h.lt e (List.mem_filter.mp he').1

/-- retiring task `i`: every other request's delayed task survives -/
theorem removeTask_minv {s : State} (h : MInv s) (i : Nat) (t : Task) (ht : taskOf s i = some t) :
    MInvE (match t with | .delayed r => some r | _ => none) (removeTask s i) := by
  have hmem := taskOf_mem_id ht
  refine ⟨h.bound, h.uniq, h.own, h.nodup, ?_, removeTask_tids h.tids i⟩
  intro x cx hx hcx hmx
  rcases h.run x cx (by intro e; cases e) hcx hmx with h1 | ⟨j, hj⟩
  · exact Or.inl h1
  · refine Or.inr ⟨j, ?_⟩
    show (j, Task.delayed x) ∈ s.tasks.filter (·.1 != i)
    refine List.mem_filter.mpr ⟨hj, ?_⟩
    simp only [bne_iff_ne, ne_eq]
    intro e
    subst e
    have := fst_nodup_unique s.tasks h.tids.nodup j _ _ hj hmem
    subst this
    exact hx rfl

theorem runWhenReady_minv {s : State} (h : MInv s) (i : Nat) (c : ConnId) (t : Token) (hp : Bool)
    (ht : taskOf s i = some (.whenReady c t hp)) : MInv (runWhenReady s i c t hp) := by
  have h1 : MInv (removeTask s i) := removeTask_minv h i _ ht
  unfold runWhenReady
  split
  · exact h1
  · split
    · exact h1.frame (MFrame.of_eq rfl rfl rfl rfl rfl rfl)
    · split
      · exact h
      · simp only []
        split
        · exact h1.frame (push_mframe _ _ _)
        · exact h1.frame (MFrame.of_eq rfl rfl rfl rfl rfl rfl)

theorem cancelIfOwner_co' (s : State) (c : Checkout) : (cancelIfOwner s c).co = s.co := (cancelIfOwner_mframe s c).co

theorem runDelayed_minv {s : State} (h : MInv s) (i : Nat) (r : ReqId) (ht : taskOf s i = some (.delayed r)) :
    MInv (runDelayed s i r) := by
  unfold runDelayed
  cases hco : s.co r with
  | none => exact (removeTask_minv h i _ ht).of_none_co hco
  | some c =>
    simp only []
    obtain ⟨f1, m1, t1, a1, al1⟩ := pollCheckout_mfields s r c
    generalize pollCheckout s r c = res at f1 m1 t1 a1 al1
    obtain ⟨s1, c', pr⟩ := res
    simp only [] at f1 m1 t1 a1 al1 ⊢
    have h1 := h.frame f1
    have hco1 : s1.co r = some c := by rw [f1.co]; exact hco
    have hmem1 : (i, Task.delayed r) ∈ s1.tasks := f1.tasks _ (taskOf_mem_id ht)
    have h2 : MInv { s1 with co := upd s1.co r (some c') } :=
      h1.setCo r c c' hco1 m1 t1 a1 (fun _ _ _ => Or.inr ⟨i, hmem1⟩)
    have ht2 : taskOf { s1 with co := upd s1.co r (some c') } i = some (.delayed r) := by
      have hm2 : (i, Task.delayed r) ∈ ({ s1 with co := upd s1.co r (some c') } : State).tasks := hmem1
      unfold taskOf
      cases hf : ({ s1 with co := upd s1.co r (some c') } : State).tasks.find? (·.1 == i) with
      | none =>
        have := List.find?_eq_none.mp hf (i, Task.delayed r) hm2
        simp at this
      | some e =>
        have hm := List.mem_of_find?_eq_some hf
        have hp := List.find?_some hf
        simp only [beq_iff_eq] at hp
        obtain ⟨e1, e2⟩ := e
        simp only [] at hp
        subst hp
        have := fst_nodup_unique _ h2.tids.nodup e1 _ _ hm hm2
        simp [this]
    have tail : MInv { (cancelIfOwner (removeTask { s1 with co := upd s1.co r (some c') } i) c') with
        co := upd (cancelIfOwner (removeTask { s1 with co := upd s1.co r (some c') } i) c').co r (some { c' with marker := false }) } := by
      have h3 : MInvE (some r) (removeTask { s1 with co := upd s1.co r (some c') } i) := removeTask_minv h2 i _ ht2
      have f4 := cancelIfOwner_mframe (removeTask { s1 with co := upd s1.co r (some c') } i) c'
      have h4 := h3.frame f4
      have hr4 : (cancelIfOwner (removeTask { s1 with co := upd s1.co r (some c') } i) c').co r = some c' := by
        rw [f4.co]; show upd s1.co r (some c') r = some c'; simp
      exact h4.dropMarker r c' _ hr4 (Or.inr rfl) (cancelIfOwner_free h3.nodup c') rfl
    cases pr with
    | pending => exact h2
    | got p => exact tail.frame (dropPooled_mframe _ p)
    | err k => exact tail
    | panic => exact tail

end Hd.Pool

namespace Hd.Pool

theorem runTask_minv {s : State} (h : MInv s) (i : Nat) : MInv (runTask s i) := by
  unfold runTask
  cases ht : taskOf s i with
  | none => exact h
  | some t =>
    cases t with
    | whenReady c tk hp => exact runWhenReady_minv h i c tk hp ht
    | delayed r => exact runDelayed_minv h i r ht

theorem runAll_minv : ∀ (fuel : Nat) (s : State), MInv s → MInv (runAll fuel s)
  | 0, _, h => h
  | fuel + 1, s, h => by
    simp only [runAll]
    split
    · exact h
    · rename_i i q hq
      have hq' : MInv { s with runq := q } := h.frame (MFrame.of_eq rfl rfl rfl rfl rfl rfl)
      exact runAll_minv fuel _ (runTask_minv hq' i)

theorem abortTask_minv {s : State} (h : MInv s) (i : Nat) : MInv (abortTask s i) := by
  unfold abortTask
  cases ht : taskOf s i with
  | none => exact h
  | some t =>
    cases t with
    | whenReady c tk hp =>
      have h1 : MInv (removeTask s i) := removeTask_minv h i _ ht
      exact h1.frame (MFrame.of_eq rfl rfl rfl rfl rfl rfl)
    | delayed r =>
      simp only []
      have h3 : MInvE (some r) (removeTask s i) := removeTask_minv h i _ ht
      cases hco : s.co r with
      | none => exact h3.of_none_co hco
      | some c =>
        simp only []
        have f4 := cancelIfOwner_mframe (removeTask s i) c
        have h4 := h3.frame f4
        have hr4 : (cancelIfOwner (removeTask s i) c).co r = some c := by rw [f4.co]; exact hco
        exact h4.dropMarker r c _ hr4 (Or.inr rfl) (cancelIfOwner_free h3.nodup c) rfl

theorem abortAll_minv : ∀ (fuel : Nat) (s : State), MInv s → MInv (abortAll fuel s)
  | 0, _, h => h
  | fuel + 1, s, h => by
    simp only [abortAll]
    split
    · exact h.frame (MFrame.of_eq rfl rfl rfl rfl rfl rfl)
    · exact abortAll_minv fuel _ (abortTask_minv h _)

theorem step_minv (s : State) (op : Op) (h : MInv s) : MInv (step s op).1 := by
  cases op with
  | issue r k mux =>
    simp only [step]
    cases hco : s.co r with
    | some _ => exact h
    | none => exact issue_minv h r k mux hco
  | poll r =>
    simp only [step]
    cases hco : s.co r with
    | none => exact h
    | some c =>
      simp only []
      split
      · exact h
      · rename_i hal
        have hal' : c.alive = true := by simpa using hal
        obtain ⟨f1, m1, t1, a1, al1⟩ := pollCheckout_mfields s r c
        generalize pollCheckout s r c = res at f1 m1 t1 a1 al1
        obtain ⟨s1, c', pr⟩ := res
        simp only [] at f1 m1 t1 a1 al1 ⊢
        have h1 := h.frame f1
        have hco1 : s1.co r = some c := by rw [f1.co]; exact hco
        have h2 : MInv { s1 with co := upd s1.co r (some c') } :=
          h1.setCo r c c' hco1 m1 t1 a1 (fun _ _ _ => Or.inl (by rw [al1]; exact hal'))
        cases pr with
        | pending => exact h2
        | err k => exact dropCheckout_minv h2 r
        | panic => exact dropCheckout_minv h2 r
        | got p =>
          simp only []
          have h3 : MInv { s1 with co := upd s1.co r (some c'), held := upd s1.held r (some p) } :=
            h2.frame (MFrame.of_eq rfl rfl rfl rfl rfl rfl)
          have h4 : MInv (if canShare { s1 with co := upd s1.co r (some c'), held := upd s1.held r (some p) } p.conn
              then { s1 with co := upd s1.co r (some c'), held := upd s1.held r (some p) }
              else setConn { s1 with co := upd s1.co r (some c'), held := upd s1.held r (some p) } p.conn (fun k => { k with busy := true })) := by
            split
            · exact h3
            · exact h3.frame (setConn_mframe _ _ _)
          exact dropCheckout_minv h4 r
  | cancel r =>
    simp only [step]
    cases hh : s.held r with
    | some p =>
      simp only []
      exact (h.frame (MFrame.of_eq (s' := { s with held := upd s.held r none }) rfl rfl rfl rfl rfl rfl)).frame (dropPooled_mframe _ p)
    | none =>
      simp only []
      cases hco : s.co r with
      | none => exact h
      | some c =>
        simp only []
        split
        · exact dropCheckout_minv h r
        · exact h
  | cancelOff r =>
    simp only [step]
    cases hh : s.held r with
    | some p =>
      simp only []
      exact abortTask_minv ((h.frame (MFrame.of_eq (s' := { s with held := upd s.held r none }) rfl rfl rfl rfl rfl rfl)).frame (dropPooled_mframe _ p)) _
    | none => exact h
  | dialDone r o =>
    simp only [step]
    split
    · exact h.frame (MFrame.of_eq rfl rfl rfl rfl rfl rfl)
    · exact h
  | finish r =>
    simp only [step]
    cases hh : s.held r with
    | some p =>
      simp only []
      exact (h.frame (MFrame.of_eq (s' := { s with held := upd s.held r none }) rfl rfl rfl rfl rfl rfl)).frame (dropPooled_mframe _ p)
    | none => exact h
  | connReady c =>
    simp only [step]
    split
    · exact (h.frame (setConn_mframe s c _)).frame (MFrame.of_eq rfl rfl rfl rfl rfl rfl)
    · exact h
  | connClose c =>
    simp only [step]
    split
    · exact (h.frame (setConn_mframe s c _)).frame (MFrame.of_eq rfl rfl rfl rfl rfl rfl)
    · exact h
  | connFail c =>
    simp only [step]
    split
    · split
      · exact (h.frame (setConn_mframe s c _)).frame (MFrame.of_eq rfl rfl rfl rfl rfl rfl)
      · exact h
    · exact h
  | run => exact runAll_minv _ s h
  | tick ms => exact h.frame (MFrame.of_eq rfl rfl rfl rfl rfl rfl)
  | mark => exact h
  | shutdown => exact abortAll_minv _ s h

theorem run_minv : ∀ (ops : List Op) (s : State), MInv s → MInv (run s ops).1
  | [], _, h => h
  | op :: ops, s, h => by
    simp only [run]
    exact run_minv ops _ (step_minv s op h)

end Hd.Pool
