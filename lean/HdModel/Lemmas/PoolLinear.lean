import HdModel.Lemmas.PoolOrigin
/-! Linear ownership of non-shareable (HTTP/1) connection handles in the pool model: at any time such
    a handle is in at most one place – one idle list (once), one waiter's channel, one checkout, one
    request's hands, or one `WhenReady` task. -/
namespace Hd.Pool

inductive Loc
  | chan (r : ReqId)
  | co (r : ReqId)
  | held (r : ReqId)
  | task (i : Nat)
deriving DecidableEq, Repr

/-- handle `c` sits at point location `l` -/
def At (s : State) (c : ConnId) : Loc → Prop
  | .chan r => ∃ p, s.chan r = .full p ∧ p.conn = c
  | .co r => ∃ chk, s.co r = some chk ∧ chk.conn = some c
  | .held r => ∃ p, s.held r = some p ∧ p.conn = c
  | .task i => ∃ t hp, (i, Task.whenReady c t hp) ∈ s.tasks

def idleCount (s : State) (c : ConnId) (t : Token) : Nat := ((s.idle t).map (·.1)).count c

def InIdle (s : State) (c : ConnId) : Prop := ∃ t, 0 < idleCount s c t

/-- `c` cannot be shared (HTTP/1, or unknown) -/
def NS (s : State) (c : ConnId) : Prop := canShare s c = false

def Nowhere (s : State) (c : ConnId) : Prop := (∀ t, idleCount s c t = 0) ∧ ∀ l, ¬ At s c l

structure Linear (s : State) : Prop where
  point : ∀ c, NS s c → ∀ l1 l2, At s c l1 → At s c l2 → l1 = l2
  idle1 : ∀ c, NS s c → ∀ t t', 0 < idleCount s c t → 0 < idleCount s c t' → t = t' ∧ idleCount s c t = 1
  cross : ∀ c, NS s c → InIdle s c → ∀ l, ¬ At s c l

theorem linear_init (cfg : Config) : Linear (init cfg) := by
  refine ⟨?_, ?_, ?_⟩
  · intro c _ l1 l2 h1
    cases l1 <;> simp [At, init] at h1
  · intro c _ t t' h1
    simp [idleCount, init] at h1
  · intro c _ h
    obtain ⟨t, ht⟩ := h
    simp [idleCount, init] at ht

/-- `s'` holds no handle that `s` does not hold -/
structure Sub (s' s : State) : Prop where
  ns : ∀ c, NS s' c → NS s c
  loc : ∀ c l, At s' c l → At s c l
  idle : ∀ c t, idleCount s' c t ≤ idleCount s c t

theorem Sub.refl (s : State) : Sub s s := ⟨fun _ h => h, fun _ _ h => h, fun _ _ => Nat.le_refl _⟩

theorem Sub.trans {a b c : State} (h1 : Sub a b) (h2 : Sub b c) : Sub a c :=
  ⟨fun x h => h2.ns x (h1.ns x h), fun x l h => h2.loc x l (h1.loc x l h),
   fun x t => Nat.le_trans (h1.idle x t) (h2.idle x t)⟩

theorem Linear.sub {s s' : State} (h : Linear s) (hs : Sub s' s) : Linear s' := by
  refine ⟨?_, ?_, ?_⟩
  · intro c hc l1 l2 h1 h2
    exact h.point c (hs.ns c hc) l1 l2 (hs.loc c l1 h1) (hs.loc c l2 h2)
  · intro c hc t t' h1 h2
    have hc' : NS s c := hs.ns c hc
    have a1 := Nat.lt_of_lt_of_le h1 (hs.idle c t)
    have a2 := Nat.lt_of_lt_of_le h2 (hs.idle c t')
    obtain ⟨e, one⟩ := h.idle1 c hc' t t' a1 a2
    refine ⟨e, ?_⟩
    have := hs.idle c t
    omega
  · intro c hc hin l hat
    have hc' : NS s c := hs.ns c hc
    obtain ⟨t, ht⟩ := hin
    exact h.cross c hc' ⟨t, Nat.lt_of_lt_of_le ht (hs.idle c t)⟩ l (hs.loc c l hat)

theorem Nowhere.sub {s s' : State} {c : ConnId} (h : Nowhere s c) (hs : Sub s' s) : Nowhere s' c :=
  ⟨fun t => by have := hs.idle c t; have := h.1 t; omega, fun l hl => h.2 l (hs.loc c l hl)⟩

/-- `s'` is `s` plus handle `c` at the new point location `l` -/
structure AddAt (s' s : State) (c : ConnId) (l : Loc) : Prop where
  ns : ∀ x, NS s' x → NS s x
  loc : ∀ x l', At s' x l' → At s x l' ∨ (x = c ∧ l' = l)
  idle : ∀ x t, idleCount s' x t ≤ idleCount s x t

theorem Linear.addAt {s s' : State} {c : ConnId} {l : Loc} (h : Linear s) (ha : AddAt s' s c l)
    (hn : NS s c → Nowhere s c) : Linear s' := by
  refine ⟨?_, ?_, ?_⟩
  · intro x hx l1 l2 h1 h2
    have hx' := ha.ns x hx
    rcases ha.loc x l1 h1 with a1 | ⟨rfl, rfl⟩ <;> rcases ha.loc x l2 h2 with a2 | ⟨e2, rfl⟩
    · exact h.point x hx' l1 l2 a1 a2
    · subst e2; exact absurd a1 ((hn hx').2 l1)
    · exact absurd a2 ((hn hx').2 l2)
    · rfl
  · intro x hx t t' h1 h2
    have hx' := ha.ns x hx
    have a1 := Nat.lt_of_lt_of_le h1 (ha.idle x t)
    have a2 := Nat.lt_of_lt_of_le h2 (ha.idle x t')
    obtain ⟨e, one⟩ := h.idle1 x hx' t t' a1 a2
    refine ⟨e, ?_⟩
    have := ha.idle x t
    omega
  · intro x hx hin l' hat
    have hx' := ha.ns x hx
    obtain ⟨t, ht⟩ := hin
    have hin' : InIdle s x := ⟨t, Nat.lt_of_lt_of_le ht (ha.idle x t)⟩
    rcases ha.loc x l' hat with a | ⟨rfl, _⟩
    · exact h.cross x hx' hin' l' a
    · have := (hn hx').1 t
      have := ha.idle x t
      omega

/-- `s'` is `s` plus one more copy of `c` in the idle list of `t` -/
structure AddIdle (s' s : State) (c : ConnId) (t : Token) : Prop where
  ns : ∀ x, NS s' x → NS s x
  loc : ∀ x l, At s' x l → At s x l
  idle : ∀ x t', idleCount s' x t' ≤ idleCount s x t' + (if x = c ∧ t' = t then 1 else 0)

theorem Linear.addIdle {s s' : State} {c : ConnId} {t : Token} (h : Linear s) (ha : AddIdle s' s c t)
    (hn : NS s c → Nowhere s c) : Linear s' := by
  refine ⟨?_, ?_, ?_⟩
  · intro x hx l1 l2 h1 h2
    exact h.point x (ha.ns x hx) l1 l2 (ha.loc x l1 h1) (ha.loc x l2 h2)
  · intro x hx t1 t2 h1 h2
    have hx' := ha.ns x hx
    by_cases e : x = c
    · subst e
      have z := (hn hx').1
      have b1 := ha.idle x t1
      have b2 := ha.idle x t2
      have z1 := z t1
      have z2 := z t2
      by_cases e1 : t1 = t <;> by_cases e2 : t2 = t <;> simp [e1, e2] at b1 b2 <;> try omega
      · subst e1; subst e2; exact ⟨rfl, by omega⟩
    · have b1 := ha.idle x t1
      have b2 := ha.idle x t2
      simp [e] at b1 b2
      obtain ⟨e', one⟩ := h.idle1 x hx' t1 t2 (by omega) (by omega)
      exact ⟨e', by omega⟩
  · intro x hx hin l hat
    have hx' := ha.ns x hx
    have hat' := ha.loc x l hat
    by_cases e : x = c
    · subst e; exact (hn hx').2 l hat'
    · obtain ⟨t1, ht1⟩ := hin
      have b1 := ha.idle x t1
      simp [e] at b1
      exact h.cross x hx' ⟨t1, by omega⟩ l hat'

end Hd.Pool

namespace Hd.Pool

def Located (s : State) (x : ConnId) : Prop := (∃ t, 0 < idleCount s x t) ∨ ∃ l, At s x l

theorem nowhere_of_not_located {s : State} {x : ConnId} (h : ¬ Located s x) : Nowhere s x := by
  refine ⟨fun t => ?_, fun l hl => h (Or.inr ⟨l, hl⟩)⟩
  cases hc : idleCount s x t with
  | zero => rfl
  | succ n => exact absurd (Or.inl ⟨t, by omega⟩) h

theorem not_located_of_nowhere {s : State} {x : ConnId} (h : Nowhere s x) : ¬ Located s x := by
  rintro (⟨t, ht⟩ | ⟨l, hl⟩)
  · have := h.1 t; omega
  · exact h.2 l hl

/-- whatever is located in `s'` was located in `s`, or is one of the handles `A` brought in -/
def Conserve (s' s : State) (A : ConnId → Prop) : Prop := ∀ x, Located s' x → Located s x ∨ A x

theorem Conserve.trans {a b c : State} {A B : ConnId → Prop} (h1 : Conserve a b A) (h2 : Conserve b c B) :
    Conserve a c (fun x => A x ∨ B x) := by
  intro x hx
  rcases h1 x hx with h | h
  · rcases h2 x h with h' | h'
    · exact Or.inl h'
    · exact Or.inr (Or.inr h')
  · exact Or.inr (Or.inl h)

theorem Conserve.weaken {a b : State} {A B : ConnId → Prop} (h : Conserve a b A) (hab : ∀ x, A x → B x) : Conserve a b B :=
  fun x hx => (h x hx).imp id (hab x)

theorem Conserve.refl (s : State) : Conserve s s (fun _ => False) := fun _ h => Or.inl h

theorem Nowhere.conserve {s s' : State} {A : ConnId → Prop} {x : ConnId} (h : Nowhere s x) (hc : Conserve s' s A)
    (hx : ¬ A x) : Nowhere s' x :=
  nowhere_of_not_located (fun hl => (hc x hl).elim (not_located_of_nowhere h) hx)

theorem Sub.conserve {s s' : State} (h : Sub s' s) : Conserve s' s (fun _ => False) := by
  rintro x (⟨t, ht⟩ | ⟨l, hl⟩)
  · exact Or.inl (Or.inl ⟨t, Nat.lt_of_lt_of_le ht (h.idle x t)⟩)
  · exact Or.inl (Or.inr ⟨l, h.loc x l hl⟩)

theorem AddAt.conserve {s s' : State} {c : ConnId} {l : Loc} (h : AddAt s' s c l) : Conserve s' s (· = c) := by
  rintro x (⟨t, ht⟩ | ⟨l', hl⟩)
  · exact Or.inl (Or.inl ⟨t, Nat.lt_of_lt_of_le ht (h.idle x t)⟩)
  · rcases h.loc x l' hl with a | ⟨e, _⟩
    · exact Or.inl (Or.inr ⟨l', a⟩)
    · exact Or.inr e

theorem AddIdle.conserve {s s' : State} {c : ConnId} {t : Token} (h : AddIdle s' s c t) : Conserve s' s (· = c) := by
  rintro x (⟨t', ht⟩ | ⟨l', hl⟩)
  · by_cases e : x = c
    · exact Or.inr e
    · have := h.idle x t'
      simp [e] at this
      exact Or.inl (Or.inl ⟨t', by omega⟩)
  · exact Or.inl (Or.inr ⟨l', h.loc x l' hl⟩)

/-- all handle-carrying fields agree up to the stated inclusions -/
theorem Sub.of_fields {s s' : State} (hconns : s'.conns = s.conns)
    (hch : ∀ r p, s'.chan r = .full p → s.chan r = .full p)
    (hco : ∀ r chk c, s'.co r = some chk → chk.conn = some c → ∃ chk0, s.co r = some chk0 ∧ chk0.conn = some c)
    (hh : ∀ r p, s'.held r = some p → s.held r = some p)
    (ht : ∀ x, x ∈ s'.tasks → x ∈ s.tasks)
    (hi : ∀ x t, idleCount s' x t ≤ idleCount s x t) : Sub s' s := by
  refine ⟨fun c h => by unfold NS canShare at *; rw [← hconns]; exact h, ?_, hi⟩
  intro c l hl
  cases l with
  | chan r => obtain ⟨p, h1, h2⟩ := hl; exact ⟨p, hch r p h1, h2⟩
  | co r => obtain ⟨chk, h1, h2⟩ := hl; exact hco r chk c h1 h2
  | held r => obtain ⟨p, h1, h2⟩ := hl; exact ⟨p, hh r p h1, h2⟩
  | task i => obtain ⟨t, hp, h1⟩ := hl; exact ⟨t, hp, ht _ h1⟩

/-- only fields that carry no handles changed -/
theorem Sub.of_eq {s s' : State} (hconns : s'.conns = s.conns) (hch : s'.chan = s.chan) (hco : s'.co = s.co)
    (hh : s'.held = s.held) (ht : s'.tasks = s.tasks) (hi : s'.idle = s.idle) : Sub s' s :=
  Sub.of_fields hconns (fun r p h => by rw [← hch]; exact h) (fun r chk c h hc => ⟨chk, by rw [← hco]; exact h, hc⟩)
    (fun r p h => by rw [← hh]; exact h) (fun x h => by rw [← ht]; exact h)
    (fun x t => by unfold idleCount; rw [hi]; exact Nat.le_refl _)

theorem idleCount_congr {s s' : State} (hi : s'.idle = s.idle) (x : ConnId) (t : Token) : idleCount s' x t = idleCount s x t := by
  unfold idleCount; rw [hi]

theorem At.congr {s s' : State} (hch : s'.chan = s.chan) (hco : s'.co = s.co) (hh : s'.held = s.held)
    (ht : s'.tasks = s.tasks) {x : ConnId} {l : Loc} (h : At s' x l) : At s x l := by
  cases l with
  | chan r => obtain ⟨p, h1, h2⟩ := h; exact ⟨p, by rw [← hch]; exact h1, h2⟩
  | co r => obtain ⟨chk, h1, h2⟩ := h; exact ⟨chk, by rw [← hco]; exact h1, h2⟩
  | held r => obtain ⟨p, h1, h2⟩ := h; exact ⟨p, by rw [← hh]; exact h1, h2⟩
  | task i => obtain ⟨t, hp, h1⟩ := h; exact ⟨t, hp, by rw [← ht]; exact h1⟩

theorem NS.congr {s s' : State} (hconns : s'.conns = s.conns) {x : ConnId} (h : NS s' x) : NS s x := by
  unfold NS canShare at *; rw [← hconns]; exact h

theorem AddAt.chan {s s' : State} (r : ReqId) (p : Pooled) (hconns : s'.conns = s.conns)
    (hch : s'.chan = upd s.chan r (.full p)) (hco : s'.co = s.co) (hh : s'.held = s.held) (ht : s'.tasks = s.tasks)
    (hi : s'.idle = s.idle) : AddAt s' s p.conn (.chan r) := by
  refine ⟨fun x h => h.congr hconns, ?_, fun x t => by rw [idleCount_congr hi]; exact Nat.le_refl _⟩
  intro x l hl
  cases l with
  | chan r' =>
    obtain ⟨p', h1, h2⟩ := hl
    rw [hch] at h1
    by_cases e : r' = r
    · subst e; simp only [upd_same, Chan.full.injEq] at h1; subst h1; exact Or.inr ⟨h2.symm, rfl⟩
    · simp only [upd, e, if_false] at h1; exact Or.inl ⟨p', h1, h2⟩
  | co r' => left; obtain ⟨chk, h1, h2⟩ := hl; exact ⟨chk, by rw [← hco]; exact h1, h2⟩
  | held r' => left; obtain ⟨p', h1, h2⟩ := hl; exact ⟨p', by rw [← hh]; exact h1, h2⟩
  | task i => left; obtain ⟨t, hp, h1⟩ := hl; exact ⟨t, hp, by rw [← ht]; exact h1⟩

theorem AddAt.held {s s' : State} (r : ReqId) (p : Pooled) (hconns : s'.conns = s.conns)
    (hch : s'.chan = s.chan) (hco : s'.co = s.co) (hh : s'.held = upd s.held r (some p)) (ht : s'.tasks = s.tasks)
    (hi : s'.idle = s.idle) : AddAt s' s p.conn (.held r) := by
  refine ⟨fun x h => h.congr hconns, ?_, fun x t => by rw [idleCount_congr hi]; exact Nat.le_refl _⟩
  intro x l hl
  cases l with
  | held r' =>
    obtain ⟨p', h1, h2⟩ := hl
    rw [hh] at h1
    by_cases e : r' = r
    · subst e; simp only [upd_same, Option.some.injEq] at h1; subst h1; exact Or.inr ⟨h2.symm, rfl⟩
    · simp only [upd, e, if_false] at h1; exact Or.inl ⟨p', h1, h2⟩
  | co r' => left; obtain ⟨chk, h1, h2⟩ := hl; exact ⟨chk, by rw [← hco]; exact h1, h2⟩
  | chan r' => left; obtain ⟨p', h1, h2⟩ := hl; exact ⟨p', by rw [← hch]; exact h1, h2⟩
  | task i => left; obtain ⟨t, hp, h1⟩ := hl; exact ⟨t, hp, by rw [← ht]; exact h1⟩

theorem AddAt.task {s s' : State} (i : Nat) (c : ConnId) (t : Token) (hp : Bool) (hconns : s'.conns = s.conns)
    (hch : s'.chan = s.chan) (hco : s'.co = s.co) (hh : s'.held = s.held)
    (ht : s'.tasks = s.tasks ++ [(i, Task.whenReady c t hp)]) (hi : s'.idle = s.idle) : AddAt s' s c (.task i) := by
  refine ⟨fun x h => h.congr hconns, ?_, fun x t => by rw [idleCount_congr hi]; exact Nat.le_refl _⟩
  intro x l hl
  cases l with
  | task j =>
    obtain ⟨t', hp', h1⟩ := hl
    rw [ht] at h1
    simp only [List.mem_append, List.mem_singleton, Prod.mk.injEq, Task.whenReady.injEq] at h1
    rcases h1 with h1 | ⟨rfl, rfl, _, _⟩
    · exact Or.inl ⟨t', hp', h1⟩
    · exact Or.inr ⟨rfl, rfl⟩
  | co r' => left; obtain ⟨chk, h1, h2⟩ := hl; exact ⟨chk, by rw [← hco]; exact h1, h2⟩
  | chan r' => left; obtain ⟨p', h1, h2⟩ := hl; exact ⟨p', by rw [← hch]; exact h1, h2⟩
  | held r' => left; obtain ⟨p', h1, h2⟩ := hl; exact ⟨p', by rw [← hh]; exact h1, h2⟩

/-- a checkout installed for a request that had none (or whose old one held no handle) -/
theorem AddAt.co {s s' : State} (r : ReqId) (chk : Checkout) (c : ConnId) (hconns : s'.conns = s.conns)
    (hch : s'.chan = s.chan) (hco : s'.co = upd s.co r (some chk)) (hc : chk.conn = some c) (hh : s'.held = s.held)
    (ht : s'.tasks = s.tasks) (hi : s'.idle = s.idle) : AddAt s' s c (.co r) := by
  refine ⟨fun x h => h.congr hconns, ?_, fun x t => by rw [idleCount_congr hi]; exact Nat.le_refl _⟩
  intro x l hl
  cases l with
  | co r' =>
    obtain ⟨chk', h1, h2⟩ := hl
    rw [hco] at h1
    by_cases e : r' = r
    · subst e; simp only [upd_same, Option.some.injEq] at h1; subst h1
      rw [hc] at h2; simp only [Option.some.injEq] at h2; exact Or.inr ⟨h2.symm, rfl⟩
    · simp only [upd, e, if_false] at h1; exact Or.inl ⟨chk', h1, h2⟩
  | task j => left; obtain ⟨t', hp', h1⟩ := hl; exact ⟨t', hp', by rw [← ht]; exact h1⟩
  | chan r' => left; obtain ⟨p', h1, h2⟩ := hl; exact ⟨p', by rw [← hch]; exact h1, h2⟩
  | held r' => left; obtain ⟨p', h1, h2⟩ := hl; exact ⟨p', by rw [← hh]; exact h1, h2⟩

theorem AddIdle.cons {s s' : State} (t : Token) (c : ConnId) (a : Nat) (hconns : s'.conns = s.conns)
    (hch : s'.chan = s.chan) (hco : s'.co = s.co) (hh : s'.held = s.held) (ht : s'.tasks = s.tasks)
    (hi : s'.idle = upd s.idle t ((c, a) :: s.idle t)) : AddIdle s' s c t := by
  refine ⟨fun x h => h.congr hconns, fun x l hl => hl.congr hch hco hh ht, ?_⟩
  intro x t'
  unfold idleCount
  rw [hi]
  by_cases e : t' = t
  · subst e
    simp only [upd_same, List.map_cons, List.count_cons]
    by_cases ex : x = c
    · subst ex; simp
    · have : (c == x) = false := by simpa using fun h => ex h.symm
      simp [this, ex]
  · simp only [upd, e, if_false]
    have : ¬ (x = c ∧ t' = t) := fun h => e h.2
    simp [this]

end Hd.Pool
