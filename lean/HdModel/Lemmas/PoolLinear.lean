import HdModel.Lemmas.PoolOrigin
/-! Linear ownership of non-shareable (HTTP/1) connection handles in the pool model: at any time such
    a handle is in at most one place – one idle list (once), one waiter's channel, one checkout, one
    request's hands, or one `WhenReady` task. -/
namespace Hd.Pool

inductive Loc
  | chan (r : ReqId)
  | co (r : ReqId)
  | held (r : ReqId)
  | task (i : Nat)
deriving DecidableEq, Repr

/-- handle `c` sits at point location `l` -/
def At (s : State) (c : ConnId) : Loc → Prop
  | .chan r => ∃ p, s.chan r = .full p ∧ p.conn = c
  | .co r => ∃ chk, s.co r = some chk ∧ chk.conn = some c
  | .held r => ∃ p, s.held r = some p ∧ p.conn = c
  | .task i => ∃ t hp, (i, Task.whenReady c t hp) ∈ s.tasks

def idleCount (s : State) (c : ConnId) (t : Token) : Nat := ((s.idle t).map (·.1)).count c

def InIdle (s : State) (c : ConnId) : Prop := ∃ t, 0 < idleCount s c t

/-- `c` cannot be shared (HTTP/1, or unknown) -/
def NS (s : State) (c : ConnId) : Prop := canShare s c = false

def Nowhere (s : State) (c : ConnId) : Prop := (∀ t, idleCount s c t = 0) ∧ ∀ l, ¬ At s c l

structure Linear (s : State) : Prop where
  point : ∀ c, NS s c → ∀ l1 l2, At s c l1 → At s c l2 → l1 = l2
  idle1 : ∀ c, NS s c → ∀ t t', 0 < idleCount s c t → 0 < idleCount s c t' → t = t' ∧ idleCount s c t = 1
  cross : ∀ c, NS s c → InIdle s c → ∀ l, ¬ At s c l

theorem linear_init (cfg : Config) : Linear (init cfg) := by
  refine ⟨?_, ?_, ?_⟩
  · intro c _ l1 l2 h1
    cases l1 <;> simp [At, init] at h1
  · intro c _ t t' h1
    simp [idleCount, init] at h1
  · intro c _ h
    obtain ⟨t, ht⟩ := h
    simp [idleCount, init] at ht

/-- `s'` holds no handle that `s` does not hold -/
structure Sub (s' s : State) : Prop where
  ns : ∀ c, NS s' c → NS s c
  loc : ∀ c l, At s' c l → At s c l
  idle : ∀ c t, idleCount s' c t ≤ idleCount s c t

theorem Sub.refl (s : State) : Sub s s := ⟨fun _ h => h, fun _ _ h => h, fun _ _ => Nat.le_refl _⟩

theorem Sub.trans {a b c : State} (h1 : Sub a b) (h2 : Sub b c) : Sub a c :=
  ⟨fun x h => h2.ns x (h1.ns x h), fun x l h => h2.loc x l (h1.loc x l h),
   fun x t => Nat.le_trans (h1.idle x t) (h2.idle x t)⟩

theorem Linear.sub {s s' : State} (h : Linear s) (hs : Sub s' s) : Linear s' := by
  refine ⟨?_, ?_, ?_⟩
  · intro c hc l1 l2 h1 h2
    exact h.point c (hs.ns c hc) l1 l2 (hs.loc c l1 h1) (hs.loc c l2 h2)
  · intro c hc t t' h1 h2
    have hc' : NS s c := hs.ns c hc
    have a1 := Nat.lt_of_lt_of_le h1 (hs.idle c t)
    have a2 := Nat.lt_of_lt_of_le h2 (hs.idle c t')
    obtain ⟨e, one⟩ := h.idle1 c hc' t t' a1 a2
    refine ⟨e, ?_⟩
    have := hs.idle c t
    omega
  · intro c hc hin l hat
    have hc' : NS s c := hs.ns c hc
    obtain ⟨t, ht⟩ := hin
    exact h.cross c hc' ⟨t, Nat.lt_of_lt_of_le ht (hs.idle c t)⟩ l (hs.loc c l hat)

theorem Nowhere.sub {s s' : State} {c : ConnId} (h : Nowhere s c) (hs : Sub s' s) : Nowhere s' c :=
  ⟨fun t => by have := hs.idle c t; have := h.1 t; omega, fun l hl => h.2 l (hs.loc c l hl)⟩

/-- `s'` is `s` plus handle `c` at the new point location `l` -/
structure AddAt (s' s : State) (c : ConnId) (l : Loc) : Prop where
  ns : ∀ x, NS s' x → NS s x
  loc : ∀ x l', At s' x l' → At s x l' ∨ (x = c ∧ l' = l)
  idle : ∀ x t, idleCount s' x t ≤ idleCount s x t

theorem Linear.addAt {s s' : State} {c : ConnId} {l : Loc} (h : Linear s) (ha : AddAt s' s c l)
    (hn : NS s c → Nowhere s c) : Linear s' := by
  refine ⟨?_, ?_, ?_⟩
  · intro x hx l1 l2 h1 h2
    have hx' := ha.ns x hx
    rcases ha.loc x l1 h1 with a1 | ⟨rfl, rfl⟩ <;> rcases ha.loc x l2 h2 with a2 | ⟨e2, rfl⟩
    · exact h.point x hx' l1 l2 a1 a2
    · subst e2; exact absurd a1 ((hn hx').2 l1)
    · exact absurd a2 ((hn hx').2 l2)
    · rfl
  · intro x hx t t' h1 h2
    have hx' := ha.ns x hx
    have a1 := Nat.lt_of_lt_of_le h1 (ha.idle x t)
    have a2 := Nat.lt_of_lt_of_le h2 (ha.idle x t')
    obtain ⟨e, one⟩ := h.idle1 x hx' t t' a1 a2
    refine ⟨e, ?_⟩
    have := ha.idle x t
    omega
  · intro x hx hin l' hat
    have hx' := ha.ns x hx
    obtain ⟨t, ht⟩ := hin
    have hin' : InIdle s x := ⟨t, Nat.lt_of_lt_of_le ht (ha.idle x t)⟩
    rcases ha.loc x l' hat with a | ⟨rfl, _⟩
    · exact h.cross x hx' hin' l' a
    · have := (hn hx').1 t
      have := ha.idle x t
      omega

/-- `s'` is `s` plus one more copy of `c` in the idle list of `t` -/
structure AddIdle (s' s : State) (c : ConnId) (t : Token) : Prop where
  ns : ∀ x, NS s' x → NS s x
  loc : ∀ x l, At s' x l → At s x l
  idle : ∀ x t', idleCount s' x t' ≤ idleCount s x t' + (if x = c ∧ t' = t then 1 else 0)

theorem Linear.addIdle {s s' : State} {c : ConnId} {t : Token} (h : Linear s) (ha : AddIdle s' s c t)
    (hn : NS s c → Nowhere s c) : Linear s' := by
  refine ⟨?_, ?_, ?_⟩
  · intro x hx l1 l2 h1 h2
    exact h.point x (ha.ns x hx) l1 l2 (ha.loc x l1 h1) (ha.loc x l2 h2)
  · intro x hx t1 t2 h1 h2
    have hx' := ha.ns x hx
    by_cases e : x = c
    · subst e
      have z := (hn hx').1
      have b1 := ha.idle x t1
      have b2 := ha.idle x t2
      have z1 := z t1
      have z2 := z t2
      by_cases e1 : t1 = t <;> by_cases e2 : t2 = t <;> simp [e1, e2] at b1 b2 <;> try omega
      · subst e1; subst e2; exact ⟨rfl, by omega⟩
    · have b1 := ha.idle x t1
      have b2 := ha.idle x t2
      simp [e] at b1 b2
      obtain ⟨e', one⟩ := h.idle1 x hx' t1 t2 (by omega) (by omega)
      exact ⟨e', by omega⟩
  · intro x hx hin l hat
    have hx' := ha.ns x hx
    have hat' := ha.loc x l hat
    by_cases e : x = c
    · subst e; exact (hn hx').2 l hat'
    · obtain ⟨t1, ht1⟩ := hin
      have b1 := ha.idle x t1
      simp [e] at b1
      exact h.cross x hx' ⟨t1, by omega⟩ l hat'

end Hd.Pool

namespace Hd.Pool

def Located (s : State) (x : ConnId) : Prop := (∃ t, 0 < idleCount s x t) ∨ ∃ l, At s x l

theorem nowhere_of_not_located {s : State} {x : ConnId} (h : ¬ Located s x) : Nowhere s x := by
  refine ⟨fun t => ?_, fun l hl => h (Or.inr ⟨l, hl⟩)⟩
  cases hc : idleCount s x t with
  | zero => rfl
  | succ n => exact absurd (Or.inl ⟨t, by omega⟩) h

theorem not_located_of_nowhere {s : State} {x : ConnId} (h : Nowhere s x) : ¬ Located s x := by
  rintro (⟨t, ht⟩ | ⟨l, hl⟩)
  · have := h.1 t; omega
  · exact h.2 l hl

/-- whatever is located in `s'` was located in `s`, or is one of the handles `A` brought in -/
def Conserve (s' s : State) (A : ConnId → Prop) : Prop := ∀ x, Located s' x → Located s x ∨ A x

theorem Conserve.trans {a b c : State} {A B : ConnId → Prop} (h1 : Conserve a b A) (h2 : Conserve b c B) :
    Conserve a c (fun x => A x ∨ B x) := by
  intro x hx
  rcases h1 x hx with h | h
  · rcases h2 x h with h' | h'
    · exact Or.inl h'
    · exact Or.inr (Or.inr h')
  · exact Or.inr (Or.inl h)

theorem Conserve.weaken {a b : State} {A B : ConnId → Prop} (h : Conserve a b A) (hab : ∀ x, A x → B x) : Conserve a b B :=
  fun x hx => (h x hx).imp id (hab x)

theorem Conserve.refl (s : State) : Conserve s s (fun _ => False) := fun _ h => Or.inl h

theorem Nowhere.conserve {s s' : State} {A : ConnId → Prop} {x : ConnId} (h : Nowhere s x) (hc : Conserve s' s A)
    (hx : ¬ A x) : Nowhere s' x :=
  nowhere_of_not_located (fun hl => (hc x hl).elim (not_located_of_nowhere h) hx)

theorem Sub.conserve {s s' : State} (h : Sub s' s) : Conserve s' s (fun _ => False) := by
  rintro x (⟨t, ht⟩ | ⟨l, hl⟩)
  · exact Or.inl (Or.inl ⟨t, Nat.lt_of_lt_of_le ht (h.idle x t)⟩)
  · exact Or.inl (Or.inr ⟨l, h.loc x l hl⟩)

theorem AddAt.conserve {s s' : State} {c : ConnId} {l : Loc} (h : AddAt s' s c l) : Conserve s' s (· = c) := by
  rintro x (⟨t, ht⟩ | ⟨l', hl⟩)
  · exact Or.inl (Or.inl ⟨t, Nat.lt_of_lt_of_le ht (h.idle x t)⟩)
  · rcases h.loc x l' hl with a | ⟨e, _⟩
    · exact Or.inl (Or.inr ⟨l', a⟩)
    · exact Or.inr e

theorem AddIdle.conserve {s s' : State} {c : ConnId} {t : Token} (h : AddIdle s' s c t) : Conserve s' s (· = c) := by
  rintro x (⟨t', ht⟩ | ⟨l', hl⟩)
  · by_cases e : x = c
    · exact Or.inr e
    · have := h.idle x t'
      simp [e] at this
      exact Or.inl (Or.inl ⟨t', by omega⟩)
  · exact Or.inl (Or.inr ⟨l', h.loc x l' hl⟩)

/-- all handle-carrying fields agree up to the stated inclusions -/
theorem Sub.of_fields {s s' : State} (hconns : s'.conns = s.conns)
    (hch : ∀ r p, s'.chan r = .full p → s.chan r = .full p)
    (hco : ∀ r chk c, s'.co r = some chk → chk.conn = some c → ∃ chk0, s.co r = some chk0 ∧ chk0.conn = some c)
    (hh : ∀ r p, s'.held r = some p → s.held r = some p)
    (ht : ∀ i c t hp, (i, Task.whenReady c t hp) ∈ s'.tasks → (i, Task.whenReady c t hp) ∈ s.tasks)
    (hi : ∀ x t, idleCount s' x t ≤ idleCount s x t) : Sub s' s := by
  refine ⟨fun c h => by unfold NS canShare at *; rw [← hconns]; exact h, ?_, hi⟩
  intro c l hl
  cases l with
  | chan r => obtain ⟨p, h1, h2⟩ := hl; exact ⟨p, hch r p h1, h2⟩
  | co r => obtain ⟨chk, h1, h2⟩ := hl; exact hco r chk c h1 h2
  | held r => obtain ⟨p, h1, h2⟩ := hl; exact ⟨p, hh r p h1, h2⟩
  | task i => obtain ⟨t, hp, h1⟩ := hl; exact ⟨t, hp, ht i c t hp h1⟩

/-- only fields that carry no handles changed -/
theorem Sub.of_eq {s s' : State} (hconns : s'.conns = s.conns) (hch : s'.chan = s.chan) (hco : s'.co = s.co)
    (hh : s'.held = s.held) (ht : s'.tasks = s.tasks) (hi : s'.idle = s.idle) : Sub s' s :=
  Sub.of_fields hconns (fun r p h => by rw [← hch]; exact h) (fun r chk c h hc => ⟨chk, by rw [← hco]; exact h, hc⟩)
    (fun r p h => by rw [← hh]; exact h) (fun i c t hp h => by rw [← ht]; exact h)
    (fun x t => by unfold idleCount; rw [hi]; exact Nat.le_refl _)

theorem idleCount_congr {s s' : State} (hi : s'.idle = s.idle) (x : ConnId) (t : Token) : idleCount s' x t = idleCount s x t := by
  unfold idleCount; rw [hi]

theorem At.congr {s s' : State} (hch : s'.chan = s.chan) (hco : s'.co = s.co) (hh : s'.held = s.held)
    (ht : s'.tasks = s.tasks) {x : ConnId} {l : Loc} (h : At s' x l) : At s x l := by
  cases l with
  | chan r => obtain ⟨p, h1, h2⟩ := h; exact ⟨p, by rw [← hch]; exact h1, h2⟩
  | co r => obtain ⟨chk, h1, h2⟩ := h; exact ⟨chk, by rw [← hco]; exact h1, h2⟩
  | held r => obtain ⟨p, h1, h2⟩ := h; exact ⟨p, by rw [← hh]; exact h1, h2⟩
  | task i => obtain ⟨t, hp, h1⟩ := h; exact ⟨t, hp, by rw [← ht]; exact h1⟩

theorem NS.congr {s s' : State} (hconns : s'.conns = s.conns) {x : ConnId} (h : NS s' x) : NS s x := by
  unfold NS canShare at *; rw [← hconns]; exact h

theorem AddAt.chan {s s' : State} (r : ReqId) (p : Pooled) (hconns : s'.conns = s.conns)
    (hch : s'.chan = upd s.chan r (.full p)) (hco : s'.co = s.co) (hh : s'.held = s.held) (ht : s'.tasks = s.tasks)
    (hi : s'.idle = s.idle) : AddAt s' s p.conn (.chan r) := by
  refine ⟨fun x h => h.congr hconns, ?_, fun x t => by rw [idleCount_congr hi]; exact Nat.le_refl _⟩
  intro x l hl
  cases l with
  | chan r' =>
    obtain ⟨p', h1, h2⟩ := hl
    rw [hch] at h1
    by_cases e : r' = r
    · subst e; simp only [upd_same, Chan.full.injEq] at h1; subst h1; exact Or.inr ⟨h2.symm, rfl⟩
    · simp only [upd, e, if_false] at h1; exact Or.inl ⟨p', h1, h2⟩
  | co r' => left; obtain ⟨chk, h1, h2⟩ := hl; exact ⟨chk, by rw [← hco]; exact h1, h2⟩
  | held r' => left; obtain ⟨p', h1, h2⟩ := hl; exact ⟨p', by rw [← hh]; exact h1, h2⟩
  | task i => left; obtain ⟨t, hp, h1⟩ := hl; exact ⟨t, hp, by rw [← ht]; exact h1⟩

theorem AddAt.held {s s' : State} (r : ReqId) (p : Pooled) (hconns : s'.conns = s.conns)
    (hch : s'.chan = s.chan) (hco : s'.co = s.co) (hh : s'.held = upd s.held r (some p)) (ht : s'.tasks = s.tasks)
    (hi : s'.idle = s.idle) : AddAt s' s p.conn (.held r) := by
  refine ⟨fun x h => h.congr hconns, ?_, fun x t => by rw [idleCount_congr hi]; exact Nat.le_refl _⟩
  intro x l hl
  cases l with
  | held r' =>
    obtain ⟨p', h1, h2⟩ := hl
    rw [hh] at h1
    by_cases e : r' = r
    · subst e; simp only [upd_same, Option.some.injEq] at h1; subst h1; exact Or.inr ⟨h2.symm, rfl⟩
    · simp only [upd, e, if_false] at h1; exact Or.inl ⟨p', h1, h2⟩
  | co r' => left; obtain ⟨chk, h1, h2⟩ := hl; exact ⟨chk, by rw [← hco]; exact h1, h2⟩
  | chan r' => left; obtain ⟨p', h1, h2⟩ := hl; exact ⟨p', by rw [← hch]; exact h1, h2⟩
  | task i => left; obtain ⟨t, hp, h1⟩ := hl; exact ⟨t, hp, by rw [← ht]; exact h1⟩

theorem AddAt.task {s s' : State} (i : Nat) (c : ConnId) (t : Token) (hp : Bool) (hconns : s'.conns = s.conns)
    (hch : s'.chan = s.chan) (hco : s'.co = s.co) (hh : s'.held = s.held)
    (ht : s'.tasks = s.tasks ++ [(i, Task.whenReady c t hp)]) (hi : s'.idle = s.idle) : AddAt s' s c (.task i) := by
  refine ⟨fun x h => h.congr hconns, ?_, fun x t => by rw [idleCount_congr hi]; exact Nat.le_refl _⟩
  intro x l hl
  cases l with
  | task j =>
    obtain ⟨t', hp', h1⟩ := hl
    rw [ht] at h1
    simp only [List.mem_append, List.mem_singleton, Prod.mk.injEq, Task.whenReady.injEq] at h1
    rcases h1 with h1 | ⟨rfl, rfl, _, _⟩
    · exact Or.inl ⟨t', hp', h1⟩
    · exact Or.inr ⟨rfl, rfl⟩
  | co r' => left; obtain ⟨chk, h1, h2⟩ := hl; exact ⟨chk, by rw [← hco]; exact h1, h2⟩
  | chan r' => left; obtain ⟨p', h1, h2⟩ := hl; exact ⟨p', by rw [← hch]; exact h1, h2⟩
  | held r' => left; obtain ⟨p', h1, h2⟩ := hl; exact ⟨p', by rw [← hh]; exact h1, h2⟩

/-- a checkout installed for a request that had none (or whose old one held no handle) -/
theorem AddAt.co {s s' : State} (r : ReqId) (chk : Checkout) (c : ConnId) (hconns : s'.conns = s.conns)
    (hch : s'.chan = s.chan) (hco : s'.co = upd s.co r (some chk)) (hc : chk.conn = some c) (hh : s'.held = s.held)
    (ht : s'.tasks = s.tasks) (hi : s'.idle = s.idle) : AddAt s' s c (.co r) := by
  refine ⟨fun x h => h.congr hconns, ?_, fun x t => by rw [idleCount_congr hi]; exact Nat.le_refl _⟩
  intro x l hl
  cases l with
  | co r' =>
    obtain ⟨chk', h1, h2⟩ := hl
    rw [hco] at h1
    by_cases e : r' = r
    · subst e; simp only [upd_same, Option.some.injEq] at h1; subst h1
      rw [hc] at h2; simp only [Option.some.injEq] at h2; exact Or.inr ⟨h2.symm, rfl⟩
    · simp only [upd, e, if_false] at h1; exact Or.inl ⟨chk', h1, h2⟩
  | task j => left; obtain ⟨t', hp', h1⟩ := hl; exact ⟨t', hp', by rw [← ht]; exact h1⟩
  | chan r' => left; obtain ⟨p', h1, h2⟩ := hl; exact ⟨p', by rw [← hch]; exact h1, h2⟩
  | held r' => left; obtain ⟨p', h1, h2⟩ := hl; exact ⟨p', by rw [← hh]; exact h1, h2⟩

theorem AddIdle.cons {s s' : State} (t : Token) (c : ConnId) (a : Nat) (hconns : s'.conns = s.conns)
    (hch : s'.chan = s.chan) (hco : s'.co = s.co) (hh : s'.held = s.held) (ht : s'.tasks = s.tasks)
    (hi : s'.idle = upd s.idle t ((c, a) :: s.idle t)) : AddIdle s' s c t := by
  refine ⟨fun x h => h.congr hconns, fun x l hl => hl.congr hch hco hh ht, ?_⟩
  intro x t'
  unfold idleCount
  rw [hi]
  by_cases e : t' = t
  · subst e
    simp only [upd_same, List.map_cons, List.count_cons]
    by_cases ex : x = c
    · subst ex; simp
    · have : (c == x) = false := by simpa using fun h => ex h.symm
      simp [this, ex]
  · simp only [upd, e, if_false]
    have : ¬ (x = c ∧ t' = t) := fun h => e h.2
    simp [this]

end Hd.Pool

namespace Hd.Pool

theorem Linear.nowhere_of_removed {s s' : State} (h : Linear s) (hs : Sub s' s) {c : ConnId} {l : Loc}
    (hns : NS s c) (hat : At s c l) (hrem : ¬ At s' c l) : Nowhere s' c := by
  refine ⟨fun t => ?_, fun l' hl' => ?_⟩
  · cases hc : idleCount s' c t with
    | zero => rfl
    | succ n =>
      have := hs.idle c t
      exact absurd hat (h.cross c hns ⟨t, by omega⟩ l)
  · have := h.point c hns l' l (hs.loc c l' hl') hat
    subst this
    exact hrem hl'

/-- pre-condition for putting handle `c` somewhere -/
def Free (s : State) (c : ConnId) : Prop := NS s c → Nowhere s c

theorem Free.of_share {s : State} {c : ConnId} (h : canShare s c = true) : Free s c := by
  intro hn; unfold NS at hn; rw [h] at hn; cases hn

theorem Free.trans {s s' : State} {A : ConnId → Prop} {c : ConnId} (h : Free s c) (hc : Conserve s' s A) (hx : ¬ A c)
    (hns : NS s' c → NS s c) : Free s' c := fun hn => (h (hns hn)).conserve hc hx

/-! ### primitives -/

theorem spawn_linear {s : State} (h : Linear s) (t : Task)
    (ht : ∀ c tk hp, t = .whenReady c tk hp → Free s c) :
    Linear (spawn s t) ∧ Conserve (spawn s t) s (fun x => ∃ tk hp, t = .whenReady x tk hp) ∧ (spawn s t).conns = s.conns := by
  unfold spawn
  cases t with
  | whenReady c tk hp =>
    have ha : AddAt { s with tasks := s.tasks ++ [(s.nextTask, .whenReady c tk hp)], runq := s.runq ++ [s.nextTask], nextTask := s.nextTask + 1 } s c (.task s.nextTask) :=
      AddAt.task s.nextTask c tk hp rfl rfl rfl rfl rfl rfl
    exact ⟨h.addAt ha (ht c tk hp rfl), ha.conserve.weaken (fun x hx => ⟨tk, hp, by rw [hx]⟩), rfl⟩
  | delayed r =>
    have hs : Sub { s with tasks := s.tasks ++ [(s.nextTask, .delayed r)], runq := s.runq ++ [s.nextTask], nextTask := s.nextTask + 1 } s := by
      refine Sub.of_fields rfl (fun _ _ h => h) (fun _ chk _ h hc => ⟨chk, h, hc⟩) (fun _ _ h => h) ?_ (fun _ _ => Nat.le_refl _)
      intro i c t hp hx
      simp only [List.mem_append, List.mem_singleton, Prod.mk.injEq] at hx
      rcases hx with hx | ⟨_, hx⟩
      · exact hx
      · cases hx
    exact ⟨h.sub hs, hs.conserve.weaken (fun _ hf => hf.elim), rfl⟩

end Hd.Pool

namespace Hd.Pool

theorem dropPooled_linear {s : State} (h : Linear s) (p : Pooled) (hf : Free s p.conn) :
    Linear (dropPooled s p) ∧ Conserve (dropPooled s p) s (· = p.conn) ∧ (dropPooled s p).conns = s.conns := by
  unfold dropPooled
  split
  · exact ⟨h, (Conserve.refl s).weaken (fun _ hf => hf.elim), rfl⟩
  · obtain ⟨a, b, c⟩ := spawn_linear h (.whenReady p.conn p.token p.hasPool) (fun c tk hp e => by cases e; exact hf)
    exact ⟨a, b.weaken (fun x ⟨tk, hp, e⟩ => by cases e; rfl), c⟩

theorem canShare_congr {s s' : State} (h : s'.conns = s.conns) (c : ConnId) : canShare s' c = canShare s c := by
  unfold canShare; rw [h]

theorem Free.congr {s s' : State} {c : ConnId} (h : Free s c) (hc : s'.conns = s.conns) (hs : Sub s' s) : Free s' c :=
  fun hn => (h (hn.congr hc)).sub hs

theorem pushLoop_linear (token : Token) (c : ConnId) : ∀ (q : List ReqId) (s : State), Linear s → Free s c →
    Linear (pushLoop s token c q).1 ∧ Conserve (pushLoop s token c q).1 s (· = c) ∧ (pushLoop s token c q).1.conns = s.conns ∧
      ((pushLoop s token c q).2 = false → NS s c → Sub (pushLoop s token c q).1 s)
  | [], s, h, _ => by
    simp only [pushLoop]
    have hs : Sub { s with waiting := upd s.waiting token [] } s := Sub.of_eq rfl rfl rfl rfl rfl rfl
    exact ⟨h.sub hs, hs.conserve.weaken (fun _ hf => hf.elim), by first | rfl | trivial, fun _ _ => hs⟩
  | r :: rest, s, h, hf => by
    simp only [pushLoop]
    split
    · rename_i hemp
      split
      · rename_i hshare
        have ha : AddAt { s with chan := upd s.chan r (.full ⟨c, 0, true⟩) } s c (.chan r) :=
          AddAt.chan r ⟨c, 0, true⟩ rfl rfl rfl rfl rfl rfl
        have h1 := h.addAt ha hf
        have hf1 : Free { s with chan := upd s.chan r (.full ⟨c, 0, true⟩) } c := Free.of_share (by exact hshare)
        obtain ⟨a, b, d, _⟩ := pushLoop_linear token c rest _ h1 hf1
        refine ⟨a, ?_, d, ?_⟩
        · exact (b.trans ha.conserve).weaken (fun x hx => hx.elim id id)
        · intro _ hns; unfold NS at hns; rw [hshare] at hns; cases hns
      · have ha : AddAt { s with chan := upd s.chan r (.full ⟨c, token, true⟩) } s c (.chan r) :=
          AddAt.chan r ⟨c, token, true⟩ rfl rfl rfl rfl rfl rfl
        have h1 := h.addAt ha hf
        have hs : Sub { s with chan := upd s.chan r (.full ⟨c, token, true⟩), waiting := upd s.waiting token rest }
            { s with chan := upd s.chan r (.full ⟨c, token, true⟩) } := Sub.of_eq rfl rfl rfl rfl rfl rfl
        refine ⟨h1.sub hs, ?_, by first | rfl | trivial, fun hfalse _ => by cases hfalse⟩
        exact (hs.conserve.trans ha.conserve).weaken (fun x hx => hx.elim (fun f => f.elim) id)
    · exact pushLoop_linear token c rest s h hf

theorem clearMarker_sub (s : State) (t : Token) (c : ConnId) : Sub (clearMarker s t c) s ∧ (clearMarker s t c).conns = s.conns := by
  unfold clearMarker; split
  · exact ⟨Sub.of_eq rfl rfl rfl rfl rfl rfl, rfl⟩
  · exact ⟨Sub.refl s, rfl⟩

theorem push_linear {s : State} (h : Linear s) (token : Token) (c : ConnId) (hf : Free s c) :
    Linear (push s token c) ∧ Conserve (push s token c) s (· = c) ∧ (push s token c).conns = s.conns := by
  unfold push
  obtain ⟨hs0, hc0⟩ := clearMarker_sub s token c
  have h0 := h.sub hs0
  have hf0 : Free (clearMarker s token c) c := hf.congr hc0 hs0
  obtain ⟨h1, b1, c1, sub1⟩ := pushLoop_linear token c ((clearMarker s token c).waiting token) _ h0 hf0
  simp only []
  generalize pushLoop (clearMarker s token c) token c ((clearMarker s token c).waiting token) = pl at h1 b1 c1 sub1
  obtain ⟨s1, delivered⟩ := pl
  simp only [] at h1 b1 c1 sub1 ⊢
  have b01 : Conserve s1 s (· = c) := (b1.trans hs0.conserve).weaken (fun x hx => hx.elim id (fun f => f.elim))
  have c01 : s1.conns = s.conns := c1.trans hc0
  split
  · exact ⟨h1, b01, c01⟩
  · split
    · -- nobody took it: it goes to the idle list. It was delivered to nobody, so it is still free.
      rename_i hdel _
      have hdel' : delivered = false := by simpa using hdel
      have hf1 : Free s1 c := by
        intro hn
        have hn0 : NS (clearMarker s token c) c := hn.congr c1
        exact (hf0 hn0).sub (sub1 hdel' hn0)
      have ha : AddIdle { s1 with idle := upd s1.idle token ((c, s1.now) :: s1.idle token) } s1 c token :=
        AddIdle.cons token c s1.now rfl rfl rfl rfl rfl rfl
      exact ⟨h1.addIdle ha hf1, (ha.conserve.trans b01).weaken (fun x hx => hx.elim id id), c01⟩
    · split
      · exact ⟨h1, b01, c01⟩
      · have hs : Sub { s1 with dropped := c :: s1.dropped } s1 := Sub.of_eq rfl rfl rfl rfl rfl rfl
        exact ⟨h1.sub hs, (hs.conserve.trans b01).weaken (fun x hx => hx.elim (fun f => f.elim) id), c01⟩

end Hd.Pool

namespace Hd.Pool

theorem idlePop_count (s : State) : ∀ (l : List (ConnId × Nat)),
    (∀ x, ((idlePop s l).2.1.map (·.1)).count x ≤ (l.map (·.1)).count x) ∧
    (∀ c, (idlePop s l).1 = some c → ((idlePop s l).2.1.map (·.1)).count c + 1 ≤ (l.map (·.1)).count c)
  | [] => by simp [idlePop]
  | (c0, a) :: rest => by
    simp only [idlePop]
    split
    · simp
    · split
      · refine ⟨fun x => ?_, fun c hc => ?_⟩
        · simp only [List.map_cons, List.count_cons]; omega
        · simp only [Option.some.injEq] at hc; subst hc
          simp [List.count_cons]
      · obtain ⟨h1, h2⟩ := idlePop_count s rest
        generalize idlePop s rest = res at h1 h2 ⊢
        obtain ⟨r, l, d⟩ := res
        simp only [] at h1 h2 ⊢
        refine ⟨fun x => ?_, fun c hc => ?_⟩
        · have := h1 x
          simp only [List.map_cons, List.count_cons]; omega
        · have := h2 c hc
          simp only [List.map_cons, List.count_cons]; omega

/-- the idle list of `t` replaced by a list with no more copies of anything -/
theorem Sub.setIdle {s : State} (t : Token) (l : List (ConnId × Nat))
    (hl : ∀ x, (l.map (·.1)).count x ≤ ((s.idle t).map (·.1)).count x) :
    Sub { s with idle := upd s.idle t l } s := by
  refine Sub.of_fields rfl (fun _ _ h => h) (fun _ chk _ h hc => ⟨chk, h, hc⟩) (fun _ _ h => h) (fun _ _ _ _ h => h) ?_
  intro x t'
  unfold idleCount
  by_cases e : t' = t
  · subst e; simp only [upd_same]; exact hl x
  · simp only [upd, e, if_false]; exact Nat.le_refl _

theorem tokenOf_sub (s : State) (k : KeyId) : Sub (tokenOf s k).1 s ∧ (tokenOf s k).1.conns = s.conns ∧
    (tokenOf s k).1.idle = s.idle ∧ (tokenOf s k).1.co = s.co := by
  unfold tokenOf; split
  · exact ⟨Sub.refl s, rfl, rfl, rfl⟩
  · exact ⟨Sub.of_eq rfl rfl rfl rfl rfl rfl, rfl, rfl, rfl⟩

theorem issueFound_linear {s : State} (h : Linear s) (r : ReqId) (k : KeyId) (mux : Bool) (t : Token) (c : ConnId)
    (hr : s.co r = none) (hf : Free s c) : Linear (issueFound s r k mux t c) := by
  unfold issueFound
  have h1 : Linear (if canShare s c then { s with idle := upd s.idle t ((c, s.now) :: s.idle t) } else s) ∧
      Free (if canShare s c then { s with idle := upd s.idle t ((c, s.now) :: s.idle t) } else s) c ∧
      (if canShare s c then { s with idle := upd s.idle t ((c, s.now) :: s.idle t) } else s).co = s.co := by
    split
    · rename_i hs
      have ha : AddIdle { s with idle := upd s.idle t ((c, s.now) :: s.idle t) } s c t := AddIdle.cons t c s.now rfl rfl rfl rfl rfl rfl
      exact ⟨h.addIdle ha hf, Free.of_share (by exact hs), rfl⟩
    · exact ⟨h, hf, rfl⟩
  generalize (if canShare s c then { s with idle := upd s.idle t ((c, s.now) :: s.idle t) } else s) = s1 at h1
  obtain ⟨h1, hf1, c1⟩ := h1
  have hs2 : Sub { s1 with chan := upd s1.chan r .txGone } s1 := by
    refine Sub.of_fields rfl ?_ (fun _ chk _ h hc => ⟨chk, h, hc⟩) (fun _ _ h => h) (fun _ _ _ _ h => h) (fun _ _ => Nat.le_refl _)
    intro r' p hp
    by_cases e : r' = r
    · subst e; simp at hp
    · simpa [upd, e] using hp
  have h2 := h1.sub hs2
  have hf2 : Free { s1 with chan := upd s1.chan r .txGone } c := hf1.congr rfl hs2
  have ha : ∀ chk : Checkout, chk.conn = some c →
      AddAt { s1 with chan := upd s1.chan r .txGone, co := upd s1.co r (some chk) }
        { s1 with chan := upd s1.chan r .txGone } c (.co r) :=
    fun chk hc => AddAt.co r chk c rfl rfl rfl hc rfl rfl rfl
  exact h2.addAt (ha _ rfl) hf2

theorem issueMissing_linear {s : State} (h : Linear s) (r : ReqId) (k : KeyId) (mux : Bool) (t : Token)
    (hr : s.co r = none) : Linear (issueMissing s r k mux t) := by
  unfold issueMissing
  simp only []
  have key : ∀ (chk : Checkout) (conn : List Token) (att : Nat) (own : Token → Nat), chk.conn = none →
      Sub { s with waiting := upd s.waiting t (s.waiting t ++ [r]), chan := upd s.chan r .empty,
                   connecting := conn, attempts := att, owner := own, co := upd s.co r (some chk) } s := by
    intro chk conn att own hcn
    refine Sub.of_fields rfl ?_ ?_ (fun _ _ h => h) (fun _ _ _ _ h => h) (fun _ _ => Nat.le_refl _)
    · intro r' p hp
      by_cases e : r' = r
      · subst e; simp at hp
      · simpa [upd, e] using hp
    · intro r' chk' c' hc' hcc
      by_cases e : r' = r
      · subst e; simp only [upd_same, Option.some.injEq] at hc'; subst hc'; rw [hcn] at hcc; cases hcc
      · exact ⟨chk', by simpa [upd, e] using hc', hcc⟩
  split
  · exact h.sub (key _ _ _ _ rfl)
  · split <;> exact h.sub (key _ _ _ _ rfl)

end Hd.Pool

namespace Hd.Pool

theorem noteDropped_sub (s : State) (l : List ConnId) : Sub (noteDropped s l) s := Sub.of_eq rfl rfl rfl rfl rfl rfl

theorem issue_linear {s : State} (h : Linear s) (r : ReqId) (k : KeyId) (mux : Bool) (hr : s.co r = none) :
    Linear (issue s r k mux) := by
  unfold issue
  obtain ⟨hs0, hc0, hi0, hco0⟩ := tokenOf_sub s k
  have h0 := h.sub hs0
  simp only []
  generalize tokenOf s k = tk at hs0 hc0 hi0 hco0 h0
  obtain ⟨s0, t⟩ := tk
  simp only [] at hs0 hc0 hi0 hco0 h0 ⊢
  obtain ⟨hcnt1, hcnt2⟩ := idlePop_count s0 (s0.idle t)
  have hs1 : Sub { s0 with idle := upd s0.idle t (idlePop s0 (s0.idle t)).2.1 } s0 := Sub.setIdle t _ hcnt1
  have hs2 : Sub (noteDropped { s0 with idle := upd s0.idle t (idlePop s0 (s0.idle t)).2.1 } (idlePop s0 (s0.idle t)).2.2) s0 :=
    (noteDropped_sub _ _).trans hs1
  have h2 := h0.sub hs2
  have hr2 : (noteDropped { s0 with idle := upd s0.idle t (idlePop s0 (s0.idle t)).2.1 } (idlePop s0 (s0.idle t)).2.2).co r = none := by
    show s0.co r = none; rw [hco0]; exact hr
  cases hp : (idlePop s0 (s0.idle t)).1 with
  | none => simp only []; exact issueMissing_linear h2 r k mux t hr2
  | some c =>
    simp only []
    apply issueFound_linear h2 r k mux t c hr2
    intro hn
    have hn0 : NS s0 c := hn
    have hpos : 0 < idleCount s0 c t := by
      have := hcnt2 c hp
      unfold idleCount; omega
    obtain ⟨_, hone⟩ := h0.idle1 c hn0 t t hpos hpos
    refine ⟨fun t' => ?_, fun l hl => ?_⟩
    · show idleCount { s0 with idle := upd s0.idle t (idlePop s0 (s0.idle t)).2.1 } c t' = 0
      unfold idleCount
      by_cases e : t' = t
      · subst e
        simp only [upd_same]
        have := hcnt2 c hp
        unfold idleCount at hone
        omega
      · simp only [upd, e, if_false]
        cases hc' : ((s0.idle t').map (·.1)).count c with
        | zero => rfl
        | succ n =>
          have : 0 < idleCount s0 c t' := by unfold idleCount; omega
          exact absurd (h0.idle1 c hn0 t' t this hpos).1 e
    · exact h0.cross c hn0 ⟨t, hpos⟩ l (hs2.loc c l hl)

/-- a non-full value put into a channel -/
theorem Sub.setChan {s : State} (r : ReqId) (v : Chan) (hv : ∀ p, v ≠ .full p) : Sub { s with chan := upd s.chan r v } s := by
  refine Sub.of_fields rfl ?_ (fun _ chk _ h hc => ⟨chk, h, hc⟩) (fun _ _ h => h) (fun _ _ _ _ h => h) (fun _ _ => Nat.le_refl _)
  intro r' p hp
  by_cases e : r' = r
  · subst e; simp only [upd_same] at hp; exact absurd hp (hv p)
  · simpa [upd, e] using hp

theorem dropRx_linear {s : State} (h : Linear s) (r : ReqId) :
    Linear (dropRx s r) ∧ Conserve (dropRx s r) s (fun _ => False) ∧ (dropRx s r).conns = s.conns := by
  unfold dropRx
  split
  · rename_i p hp
    have hs : Sub { s with chan := upd s.chan r .rxGone } s := Sub.setChan r .rxGone (fun _ e => by cases e)
    have h1 := h.sub hs
    have hf : Free { s with chan := upd s.chan r .rxGone } p.conn := by
      intro hn
      apply h.nowhere_of_removed hs (l := .chan r) hn ⟨p, hp, rfl⟩
      rintro ⟨p', hp', _⟩
      simp at hp'
    obtain ⟨a, b, c⟩ := dropPooled_linear h1 p hf
    refine ⟨a, ?_, c⟩
    -- the handle that moved was located in `s` (in the channel)
    intro x hx
    rcases b x hx with hl | he
    · exact Or.inl ((hs.conserve x hl).elim id (fun f => f.elim))
    · subst he; exact Or.inl (Or.inr ⟨.chan r, p, hp, rfl⟩)
  · have hs : Sub { s with chan := upd s.chan r .rxGone } s := Sub.setChan r .rxGone (fun _ e => by cases e)
    exact ⟨h.sub hs, hs.conserve, rfl⟩
  · exact ⟨h, Conserve.refl s, rfl⟩

theorem dropSenders_sub : ∀ (l : List ReqId) (s : State), Sub (dropSenders s l) s ∧ (dropSenders s l).conns = s.conns
  | [], s => ⟨Sub.refl s, rfl⟩
  | r :: rest, s => by
    simp only [dropSenders]
    have h1 : Sub (match s.chan r with | .empty => { s with chan := upd s.chan r .txGone } | _ => s) s ∧
        (match s.chan r with | .empty => { s with chan := upd s.chan r .txGone } | _ => s).conns = s.conns := by
      split
      · exact ⟨Sub.setChan r .txGone (fun _ e => by cases e), rfl⟩
      · exact ⟨Sub.refl s, rfl⟩
    obtain ⟨a, b⟩ := dropSenders_sub rest (match s.chan r with | .empty => { s with chan := upd s.chan r .txGone } | _ => s)
    exact ⟨a.trans h1.1, b.trans h1.2⟩

theorem cancelConnection_sub (s : State) (t : Token) : Sub (cancelConnection s t) s ∧ (cancelConnection s t).conns = s.conns := by
  unfold cancelConnection
  split
  · simp only []
    obtain ⟨a, b⟩ := dropSenders_sub (s.waiting t) { s with connecting := s.connecting.erase t }
    have h0 : Sub { s with connecting := s.connecting.erase t } s := Sub.of_eq rfl rfl rfl rfl rfl rfl
    generalize dropSenders { s with connecting := s.connecting.erase t } (s.waiting t) = s2 at a b
    have h2 : Sub { s2 with waiting := upd s2.waiting t [] } s2 := Sub.of_eq rfl rfl rfl rfl rfl rfl
    exact ⟨(h2.trans a).trans h0, b⟩
  · exact ⟨Sub.refl s, rfl⟩

theorem cancelIfOwner_sub (s : State) (c : Checkout) : Sub (cancelIfOwner s c) s ∧ (cancelIfOwner s c).conns = s.conns := by
  unfold cancelIfOwner; split
  · exact cancelConnection_sub s c.token
  · exact ⟨Sub.refl s, rfl⟩

end Hd.Pool

namespace Hd.Pool

/-- the checkout of `r` replaced by one that holds no handle -/
theorem Sub.setCoNone {s : State} (r : ReqId) (chk : Checkout) (hc : chk.conn = none) :
    Sub { s with co := upd s.co r (some chk) } s := by
  refine Sub.of_fields rfl (fun _ _ h => h) ?_ (fun _ _ h => h) (fun _ _ _ _ h => h) (fun _ _ => Nat.le_refl _)
  intro r' chk' c' hc' hcc
  by_cases e : r' = r
  · subst e; simp only [upd_same, Option.some.injEq] at hc'; subst hc'; rw [hc] at hcc; cases hcc
  · exact ⟨chk', by simpa [upd, e] using hc', hcc⟩

theorem takeConn_linear {s : State} (h : Linear s) (r : ReqId) (c : Checkout) (hco : s.co r = some c) :
    Linear (takeConn s r c) ∧ Sub (takeConn s r c) s ∧ (∀ cid, c.conn = some cid → Free (takeConn s r c) cid) := by
  have hs : Sub (takeConn s r c) s := Sub.setCoNone r _ rfl
  refine ⟨h.sub hs, hs, ?_⟩
  intro cid hcid hn
  apply h.nowhere_of_removed hs (l := .co r) hn ⟨c, hco, hcid⟩
  rintro ⟨chk, hchk, hcc⟩
  simp [takeConn] at hchk
  subst hchk
  cases hcc

theorem returnUnused_linear {s : State} (h : Linear s) (c : Checkout) (hf : ∀ cid, c.conn = some cid → Free s cid) :
    Linear (returnUnused s c) ∧ Conserve (returnUnused s c) s (fun x => c.conn = some x) ∧ (returnUnused s c).conns = s.conns := by
  unfold returnUnused
  split
  · rename_i cid hcid
    split
    · obtain ⟨a, b, d⟩ := push_linear h c.token cid (hf cid hcid)
      exact ⟨a, b.weaken (fun x hx => by rw [hx]; exact hcid), d⟩
    · split
      · exact ⟨h, (Conserve.refl s).weaken (fun _ f => f.elim), rfl⟩
      · have hs : Sub { s with dropped := cid :: s.dropped } s := Sub.of_eq rfl rfl rfl rfl rfl rfl
        exact ⟨h.sub hs, hs.conserve.weaken (fun _ f => f.elim), rfl⟩
  · exact ⟨h, (Conserve.refl s).weaken (fun _ f => f.elim), rfl⟩

theorem dropCheckout_linear {s : State} (h : Linear s) (r : ReqId) :
    Linear (dropCheckout s r) ∧ Conserve (dropCheckout s r) s (fun _ => False) ∧ (dropCheckout s r).conns = s.conns := by
  unfold dropCheckout
  cases hco : s.co r with
  | none => exact ⟨h, Conserve.refl s, rfl⟩
  | some c =>
    simp only []
    split
    · exact ⟨h, Conserve.refl s, rfl⟩
    · obtain ⟨h0, hs0, hf0⟩ := takeConn_linear h r c hco
      have hc0 : (takeConn s r c).conns = s.conns := rfl
      obtain ⟨h1, b1, c1⟩ := returnUnused_linear h0 c hf0
      -- whatever `returnUnused` placed was located in `s` (in the checkout)
      have b01 : Conserve (returnUnused (takeConn s r c) c) s (fun _ => False) := by
        intro x hx
        rcases b1 x hx with hl | he
        · exact Or.inl ((hs0.conserve x hl).elim id (fun f => f.elim))
        · exact Or.inl (Or.inr ⟨.co r, c, hco, he⟩)
      generalize returnUnused (takeConn s r c) c = s1 at h1 b1 c1 b01
      split
      · obtain ⟨h2, b2, c2⟩ := spawn_linear h1 (.delayed r) (fun _ _ _ e => by cases e)
        obtain ⟨h3, b3, c3⟩ := dropRx_linear h2 r
        generalize dropRx (spawn s1 (.delayed r)) r = s3 at h3 b3 c3
        have hs4 : ∀ chk : Checkout, chk.conn = none → Sub { s3 with co := upd s3.co r (some chk) } s3 :=
          fun chk hc => Sub.setCoNone r chk hc
        refine ⟨h3.sub (hs4 _ rfl), ?_, ?_⟩
        · intro x hx
          rcases (hs4 _ rfl).conserve x hx with hl | f
          · rcases b3 x hl with hl | f
            · rcases b2 x hl with hl | ⟨_, _, e⟩
              · exact b01 x hl
              · cases e
            · exact f.elim
          · exact f.elim
        · show s3.conns = s.conns
          rw [c3, c2, c1, hc0]
      · obtain ⟨hs2, c2⟩ := cancelIfOwner_sub s1 c
        have h2 := h1.sub hs2
        obtain ⟨h3, b3, c3⟩ := dropRx_linear h2 r
        generalize dropRx (cancelIfOwner s1 c) r = s3 at h3 b3 c3
        have hs4 : ∀ chk : Checkout, chk.conn = none → Sub { s3 with co := upd s3.co r (some chk) } s3 :=
          fun chk hc => Sub.setCoNone r chk hc
        refine ⟨h3.sub (hs4 _ rfl), ?_, ?_⟩
        · intro x hx
          rcases (hs4 _ rfl).conserve x hx with hl | f
          · rcases b3 x hl with hl | f
            · rcases hs2.conserve x hl with hl | f
              · exact b01 x hl
              · exact f.elim
            · exact f.elim
          · exact f.elim
        · show s3.conns = s.conns
          rw [c3, c2, c1, hc0]

end Hd.Pool

namespace Hd.Pool

/-- every located handle is a connection that exists -/
def Live (s : State) : Prop := ∀ x, Located s x → (s.conns x).isSome = true

theorem live_init (cfg : Config) : Live (init cfg) := by
  rintro x (⟨t, ht⟩ | ⟨l, hl⟩)
  · simp [idleCount, init] at ht
  · cases l <;> simp [At, init] at hl

theorem Live.conserve {s s' : State} {A : ConnId → Prop} (h : Live s) (hc : Conserve s' s A)
    (hconns : ∀ x, (s.conns x).isSome = true → (s'.conns x).isSome = true)
    (hA : ∀ x, A x → (s'.conns x).isSome = true) : Live s' := by
  intro x hx
  rcases hc x hx with hl | ha
  · exact hconns x (h x hl)
  · exact hA x ha

theorem Live.conserve_eq {s s' : State} {A : ConnId → Prop} (h : Live s) (hc : Conserve s' s A)
    (hconns : s'.conns = s.conns) (hA : ∀ x, A x → (s.conns x).isSome = true) : Live s' :=
  h.conserve hc (fun x hx => by rw [hconns]; exact hx) (fun x hx => by rw [hconns]; exact hA x hx)

/-- a connection id that does not exist yet is nowhere -/
theorem Live.nowhere {s : State} (h : Live s) {x : ConnId} (hx : s.conns x = none) : Nowhere s x :=
  nowhere_of_not_located (fun hl => by have := h x hl; rw [hx] at this; cases this)

theorem newConn_sub (s : State) (c : Checkout) (alpn : Negotiated) (hfresh : s.conns s.nextConn = none) :
    Sub (newConn s c alpn).1 s := by
  unfold newConn
  simp only []
  refine ⟨?_, ?_, fun _ _ => Nat.le_refl _⟩
  · intro x hx
    by_cases e : x = s.nextConn
    · subst e; unfold NS canShare; rw [hfresh]
    · unfold NS canShare at hx ⊢
      simpa [upd, e] using hx
  · intro x l hl
    cases l with
    | chan r => exact hl
    | co r => exact hl
    | held r => exact hl
    | task i => exact hl

theorem newConn_conns (s : State) (c : Checkout) (alpn : Negotiated) :
    (∀ x, (s.conns x).isSome = true → ((newConn s c alpn).1.conns x).isSome = true) ∧
    ((newConn s c alpn).1.conns (newConn s c alpn).2).isSome = true ∧ (newConn s c alpn).2 = s.nextConn := by
  unfold newConn
  simp only []
  refine ⟨?_, by simp, by first | rfl | trivial⟩
  intro x hx
  by_cases e : x = s.nextConn
  · subst e; simp
  · simpa [upd, e] using hx

theorem registerConnected_linear {s : State} (h : Linear s) (c : Checkout) (cid : ConnId) (hf : Free s cid) :
    Linear (registerConnected s c cid).1 ∧ Conserve (registerConnected s c cid).1 s (· = cid) ∧
      (registerConnected s c cid).1.conns = s.conns ∧
      (NS s cid → (registerConnected s c cid).1 = s) := by
  unfold registerConnected
  split
  · rename_i hs
    obtain ⟨a, b, d⟩ := push_linear h c.token cid hf
    exact ⟨a, b, d, fun hn => by unfold NS at hn; rw [hs] at hn; cases hn⟩
  · exact ⟨h, (Conserve.refl s).weaken (fun _ f => f.elim), rfl, fun _ => rfl⟩

theorem setConn_sub (s : State) (c : ConnId) (f : Conn → Conn) (hf : ∀ k, (f k).kind = k.kind) :
    Sub (setConn s c f) s ∧ (∀ x, (s.conns x).isSome = true → ((setConn s c f).conns x).isSome = true) := by
  unfold setConn
  split
  · rename_i k hk
    refine ⟨⟨?_, ?_, fun _ _ => Nat.le_refl _⟩, ?_⟩
    · intro x hx
      by_cases e : x = c
      · subst e
        unfold NS canShare at hx ⊢
        simp only [upd_same] at hx
        rw [hk]
        simpa [hf k] using hx
      · unfold NS canShare at hx ⊢
        simpa [upd, e] using hx
    · intro x l hl
      cases l <;> exact hl
    · intro x hx
      by_cases e : x = c
      · subst e; simp
      · simpa [upd, e] using hx
  · exact ⟨Sub.refl s, fun _ h => h⟩

theorem removeTask_sub (s : State) (i : Nat) : Sub (removeTask s i) s := by
  unfold removeTask
  refine Sub.of_fields rfl (fun _ _ h => h) (fun _ chk _ h hc => ⟨chk, h, hc⟩) (fun _ _ h => h) ?_ (fun _ _ => Nat.le_refl _)
  intro j c t hp hm
  exact (List.mem_filter.mp hm).1

end Hd.Pool

namespace Hd.Pool

/-- replacing the checkout of `r` by one that holds the same handle, or none -/
theorem Sub.commit {s1 : State} {r : ReqId} {c c' : Checkout} (hco : s1.co r = some c)
    (hc : ∀ cid, c'.conn = some cid → c.conn = some cid) : Sub { s1 with co := upd s1.co r (some c') } s1 := by
  refine Sub.of_fields rfl (fun _ _ h => h) ?_ (fun _ _ h => h) (fun _ _ _ _ h => h) (fun _ _ => Nat.le_refl _)
  intro r' chk x hchk hx
  by_cases e : r' = r
  · subst e; simp only [upd_same, Option.some.injEq] at hchk; subst hchk
    exact ⟨c, hco, hc x hx⟩
  · exact ⟨chk, by simpa [upd, e] using hchk, hx⟩

structure LinInv (s : State) : Prop where
  lin : Linear s
  live : Live s

theorem LinInv.sub {s s' : State} (h : LinInv s) (hs : Sub s' s)
    (hconns : ∀ x, (s.conns x).isSome = true → (s'.conns x).isSome = true) : LinInv s' :=
  ⟨h.lin.sub hs, h.live.conserve hs.conserve hconns (fun _ f => f.elim)⟩

theorem LinInv.sub_eq {s s' : State} (h : LinInv s) (hs : Sub s' s) (hconns : s'.conns = s.conns) : LinInv s' :=
  h.sub hs (fun x hx => by rw [hconns]; exact hx)

/-- result of a poll, with the checkout written back: the handed-out connection is in nobody's hands -/
structure PollOk (s : State) (r : ReqId) (S : State) (res : PollRes) : Prop where
  inv : LinInv S
  free : ∀ p, res = .got p → Free S p.conn ∧ (S.conns p.conn).isSome = true

theorem dropRx_lininv {s : State} (h : LinInv s) (r : ReqId) : LinInv (dropRx s r) := by
  obtain ⟨a, b, c⟩ := dropRx_linear h.lin r
  exact ⟨a, h.live.conserve_eq b c (fun _ f => f.elim)⟩

theorem pushLoop_co (token : Token) (c : ConnId) : ∀ (q : List ReqId) (s : State), (pushLoop s token c q).1.co = s.co
  | [], s => by simp [pushLoop]
  | r :: rest, s => by
    simp only [pushLoop]
    split
    · split
      · rw [pushLoop_co token c rest]
      · rfl
    · exact pushLoop_co token c rest s

theorem push_co (s : State) (token : Token) (c : ConnId) : (push s token c).co = s.co := by
  unfold push
  simp only []
  have h0 : (clearMarker s token c).co = s.co := clearMarker_co s token c
  have h1 := pushLoop_co token c ((clearMarker s token c).waiting token) (clearMarker s token c)
  generalize pushLoop (clearMarker s token c) token c ((clearMarker s token c).waiting token) = pl at h1
  obtain ⟨s1, d⟩ := pl
  simp only [] at h1 ⊢
  split
  · rw [h1, h0]
  · split
    · show s1.co = s.co; rw [h1, h0]
    · split
      · rw [h1, h0]
      · show s1.co = s.co; rw [h1, h0]

theorem pollCheckout_linear {s : State} (h : LinInv s) (ho : OriginInv s) (r : ReqId) (c : Checkout) (hco : s.co r = some c) :
    PollOk s r { (pollCheckout s r c).1 with co := upd (pollCheckout s r c).1.co r (some (pollCheckout s r c).2.1) }
      (pollCheckout s r c).2.2 := by
  -- the waiter
  have hw : LinInv (pollWaiter s r c).1 ∧ (pollWaiter s r c).1.co = s.co ∧ (pollWaiter s r c).2.1.conn = c.conn ∧
      (pollWaiter s r c).2.1.inner = c.inner ∧
      (∀ p, (pollWaiter s r c).2.2 = some (some p) → Free (pollWaiter s r c).1 p.conn ∧ ((pollWaiter s r c).1.conns p.conn).isSome = true) := by
    have take : ∀ p, s.chan r = .full p →
        LinInv { s with chan := upd s.chan r .rxGone } ∧ Free { s with chan := upd s.chan r .rxGone } p.conn ∧
          (s.conns p.conn).isSome = true := by
      intro p hp
      have hs : Sub { s with chan := upd s.chan r .rxGone } s := Sub.setChan r .rxGone (fun _ e => by cases e)
      refine ⟨h.sub_eq hs rfl, ?_, h.live p.conn (Or.inr ⟨.chan r, p, hp, rfl⟩)⟩
      intro hn
      apply h.lin.nowhere_of_removed hs (l := .chan r) hn ⟨p, hp, rfl⟩
      rintro ⟨p', hp', _⟩
      simp at hp'
    unfold pollWaiter
    cases c.waiter with
    | idle =>
      simp only []
      split
      · rename_i p hp
        obtain ⟨a, b, d⟩ := take p hp
        exact ⟨a, rfl, rfl, rfl, fun p' hp' => by simp only [Option.some.injEq] at hp'; subst hp'; exact ⟨b, d⟩⟩
      · exact ⟨h, rfl, rfl, rfl, fun p hp => by simp at hp⟩
      · exact ⟨h, rfl, rfl, rfl, fun p hp => by simp at hp⟩
    | connecting =>
      simp only []
      split
      · rename_i p hp
        obtain ⟨a, b, d⟩ := take p hp
        exact ⟨a, rfl, rfl, rfl, fun p' hp' => by simp only [Option.some.injEq] at hp'; subst hp'; exact ⟨b, d⟩⟩
      · exact ⟨h, rfl, rfl, rfl, fun p hp => by simp at hp⟩
      · exact ⟨h, rfl, rfl, rfl, fun p hp => by simp at hp⟩
    | noPool => exact ⟨h, rfl, rfl, rfl, fun p hp => by simp at hp⟩
  obtain ⟨ho1, e1, oc1, _⟩ := pollWaiter_inv ho r c hco
  unfold pollCheckout
  generalize pollWaiter s r c = pw at hw ho1 e1 oc1
  obtain ⟨s1, cw, w⟩ := pw
  obtain ⟨h1, c1, cn1, in1, free1⟩ := hw
  simp only [] at h1 c1 cn1 in1 free1 ho1 e1 oc1 ⊢
  have hco1 : s1.co r = some c := by rw [c1]; exact hco
  -- writing back a checkout that holds what `c` held, or nothing
  have commit : ∀ (s2 : State) (c' : Checkout), LinInv s2 → s2.co r = some c → (∀ cid, c'.conn = some cid → c.conn = some cid) →
      LinInv { s2 with co := upd s2.co r (some c') } :=
    fun s2 c' h2 hc2 hcc => h2.sub_eq (Sub.commit hc2 hcc) rfl
  cases w with
  | none => exact ⟨commit s1 cw h1 hco1 (fun cid hc => by rw [cn1] at hc; exact hc), fun p hp => by cases hp⟩
  | some w' =>
    cases w' with
    | some p =>
      refine ⟨commit s1 cw h1 hco1 (fun cid hc => by rw [cn1] at hc; exact hc), ?_⟩
      intro p' hp'
      simp only [PollRes.got.injEq] at hp'
      subst hp'
      obtain ⟨f, ex⟩ := free1 p rfl
      exact ⟨f.congr rfl (Sub.commit hco1 (fun cid hc => by rw [cn1] at hc; exact hc)), ex⟩
    | none =>
      simp only []
      cases hin : cw.inner with
      | waiting => exact ⟨commit s1 cw h1 hco1 (fun cid hc => by rw [cn1] at hc; exact hc), fun p hp => by cases hp⟩
      | connected =>
        simp only []
        cases hcn : cw.conn with
        | none =>
          simp only []
          exact ⟨commit s1 cw h1 hco1 (fun cid hc => by rw [hcn] at hc; cases hc), fun p hp => by cases hp⟩
        | some cid =>
          simp only []
          have h2 := dropRx_lininv h1 r
          have hco2 : (dropRx s1 r).co r = some c := by rw [dropRx_co]; exact hco1
          have hcid : c.conn = some cid := by rw [← cn1]; exact hcn
          have hsub : ∀ c' : Checkout, c'.conn = none → Sub { (dropRx s1 r) with co := upd (dropRx s1 r).co r (some c') } (dropRx s1 r) :=
            fun c' hc' => Sub.commit hco2 (fun x hx => by rw [hc'] at hx; cases hx)
          refine ⟨h2.sub_eq (hsub _ rfl) rfl, ?_⟩
          intro p hp
          simp only [PollRes.got.injEq] at hp
          subst hp
          have hpc : ∀ c'' : Checkout, (checkedOut (dropRx s1 r) c'' cid).conn = cid := fun c'' => (checkedOut_spec _ c'' cid).1
          rw [hpc]
          refine ⟨?_, h2.live cid (Or.inr ⟨.co r, c, hco2, hcid⟩)⟩
          intro hn
          apply h2.lin.nowhere_of_removed (hsub _ rfl) (l := .co r) hn ⟨c, hco2, hcid⟩
          rintro ⟨chk, hchk, hcc⟩
          simp only [upd_same, Option.some.injEq] at hchk
          subst hchk
          cases hcc
      | connecting | delayDrop | delayed =>
        simp only []
        have hsd : Sub (startDial s1 r) s1 ∧ (startDial s1 r).conns = s1.conns := by
          unfold startDial; split
          · exact ⟨Sub.refl s1, rfl⟩
          · exact ⟨Sub.of_eq rfl rfl rfl rfl rfl rfl, rfl⟩
        have h2 := h1.sub_eq hsd.1 hsd.2
        have hco2 : (startDial s1 r).co r = some c := by rw [startDial_co]; exact hco1
        cases hout : (s1.dial r).outcome with
        | none => exact ⟨commit _ cw h2 hco2 (fun cid hc => by rw [cn1] at hc; exact hc), fun p hp => by cases hp⟩
        | some out =>
          simp only []
          have h3 := dropRx_lininv h2 r
          have hco3 : (dropRx (startDial s1 r) r).co r = some c := by rw [dropRx_co]; exact hco2
          have ho3 : OriginInv (dropRx (startDial s1 r) r) := dropRx_inv (startDial_inv ho1 r) r
          cases out with
          | failConnect => exact ⟨commit _ _ h3 hco3 (fun cid hc => by rw [cn1] at hc; exact hc), fun p hp => by cases hp⟩
          | failHandshake => exact ⟨commit _ _ h3 hco3 (fun cid hc => by rw [cn1] at hc; exact hc), fun p hp => by cases hp⟩
          | ok alpn =>
            simp only []
            generalize hs3 : dropRx (startDial s1 r) r = s3 at h3 hco3 ho3
            have hfresh : s3.conns s3.nextConn = none := by
              cases hc : s3.conns s3.nextConn with
              | none => rfl
              | some conn => exact absurd (ho3.fresh _ conn hc) (Nat.lt_irrefl _)
            have hnw : Nowhere s3 s3.nextConn := h3.live.nowhere hfresh
            obtain ⟨cv1, cv2, cv3⟩ := newConn_conns s3 { cw with inner := .connected, waiter := .noPool } alpn
            have hs4 := newConn_sub s3 { cw with inner := .connected, waiter := .noPool } alpn hfresh
            have hco4 : (newConn s3 { cw with inner := .connected, waiter := .noPool } alpn).1.co r = some c := hco3
            generalize newConn s3 { cw with inner := .connected, waiter := .noPool } alpn = nc at cv1 cv2 cv3 hs4 hco4
            obtain ⟨s4, cid⟩ := nc
            simp only [] at cv1 cv2 cv3 hs4 hco4 ⊢
            have h4 : LinInv s4 := h3.sub hs4 cv1
            have hf4 : Free s4 cid := fun _ => by rw [cv3]; exact hnw.sub hs4
            obtain ⟨l5, b5, c5, same5⟩ := registerConnected_linear h4.lin { cw with inner := .connected, waiter := .noPool } cid hf4
            have pc5 : (registerConnected s4 { cw with inner := .connected, waiter := .noPool } cid).2.conn = cid := by
              unfold registerConnected; split <;> rfl
            have co5 : (registerConnected s4 { cw with inner := .connected, waiter := .noPool } cid).1.co r = some c := by
              have : (registerConnected s4 { cw with inner := .connected, waiter := .noPool } cid).1.co = s4.co := by
                unfold registerConnected
                split
                · exact push_co _ _ _
                · rfl
              rw [this]; exact hco4
            generalize registerConnected s4 { cw with inner := .connected, waiter := .noPool } cid = rc at l5 b5 c5 same5 pc5 co5
            obtain ⟨s5, p⟩ := rc
            simp only [] at l5 b5 c5 same5 pc5 co5 ⊢
            have ex5 : (s5.conns cid).isSome = true := by rw [c5]; exact cv2
            have h5 : LinInv s5 := ⟨l5, h4.live.conserve b5 (fun x hx => by rw [c5]; exact hx) (fun x hx => by rw [hx]; exact ex5)⟩
            have hcc : ∀ x, ({ cw with inner := .connected, waiter := .noPool } : Checkout).conn = some x → c.conn = some x :=
              fun x hx => by rw [← cn1]; exact hx
            have hsub := Sub.commit (c' := { cw with inner := .connected, waiter := .noPool }) co5 hcc
            refine ⟨h5.sub_eq hsub rfl, ?_⟩
            intro p' hp'
            simp only [PollRes.got.injEq] at hp'
            subst hp'
            rw [pc5]
            refine ⟨?_, ex5⟩
            intro hn
            have hn4 : NS s4 cid := by
              have : NS s5 cid := hn
              unfold NS canShare at this ⊢; rw [← c5]; exact this
            have e45 : s5 = s4 := same5 hn4
            subst e45
            exact (hf4 hn4).sub hsub

end Hd.Pool

namespace Hd.Pool

theorem taskOf_mem_id {s : State} {i : Nat} {t : Task} (h : taskOf s i = some t) : (i, t) ∈ s.tasks := by
  unfold taskOf at h
  cases hf : s.tasks.find? (·.1 == i) with
  | none => simp [hf] at h
  | some x =>
    simp only [hf, Option.map_some, Option.some.injEq] at h
    have hm := List.mem_of_find?_eq_some hf
    have hp := List.find?_some hf
    simp only [beq_iff_eq] at hp
    obtain ⟨a, b⟩ := x
    simp only [] at h hp
    subst h; subst hp
    exact hm

theorem runWhenReady_lininv {s : State} (h : LinInv s) (i : Nat) (c : ConnId) (t : Token) (hp : Bool)
    (hm : (i, Task.whenReady c t hp) ∈ s.tasks) : LinInv (runWhenReady s i c t hp) := by
  have hs := removeTask_sub s i
  have h1 : LinInv (removeTask s i) := h.sub_eq hs rfl
  have hex : (s.conns c).isSome = true := h.live c (Or.inr ⟨.task i, t, hp, hm⟩)
  have hf : Free (removeTask s i) c := by
    intro hn
    apply h.lin.nowhere_of_removed hs (l := .task i) hn ⟨t, hp, hm⟩
    rintro ⟨t', hp', hm'⟩
    unfold removeTask at hm'
    have := (List.mem_filter.mp hm').2
    simp at this
  unfold runWhenReady
  split
  · exact h1
  · split
    · exact h1.sub_eq (Sub.of_eq rfl rfl rfl rfl rfl rfl) rfl
    · split
      · exact h
      · simp only []
        split
        · obtain ⟨a, b, d⟩ := push_linear h1.lin t c hf
          exact ⟨a, h1.live.conserve_eq b d (fun x hx => by rw [hx]; exact hex)⟩
        · exact h1.sub_eq (Sub.of_eq rfl rfl rfl rfl rfl rfl) rfl

theorem dropPooled_lininv {s : State} (h : LinInv s) (p : Pooled) (hf : Free s p.conn) (hex : (s.conns p.conn).isSome = true) :
    LinInv (dropPooled s p) := by
  obtain ⟨a, b, c⟩ := dropPooled_linear h.lin p hf
  exact ⟨a, h.live.conserve_eq b c (fun x hx => by rw [hx]; exact hex)⟩

theorem dropCheckout_lininv {s : State} (h : LinInv s) (r : ReqId) : LinInv (dropCheckout s r) := by
  obtain ⟨a, b, c⟩ := dropCheckout_linear h.lin r
  exact ⟨a, h.live.conserve_eq b c (fun _ f => f.elim)⟩

theorem runDelayed_lininv {s : State} (h : LinInv s) (ho : OriginInv s) (i : Nat) (r : ReqId) : LinInv (runDelayed s i r) := by
  unfold runDelayed
  cases hco : s.co r with
  | none => exact h.sub_eq (removeTask_sub s i) rfl
  | some c =>
    simp only []
    obtain ⟨h2, free2⟩ := pollCheckout_linear h ho r c hco
    generalize pollCheckout s r c = res at h2 free2
    obtain ⟨s1, c', pr⟩ := res
    simp only [] at h2 free2 ⊢
    -- the tail: task removed, marker cancelled if owned, marker flag cleared
    have tail : ∀ (s2 : State), LinInv s2 → s2.co r = some c' →
        LinInv { (cancelIfOwner (removeTask s2 i) c') with
                 co := upd (cancelIfOwner (removeTask s2 i) c').co r (some { c' with marker := false }) } ∧
        Sub { (cancelIfOwner (removeTask s2 i) c') with
                 co := upd (cancelIfOwner (removeTask s2 i) c').co r (some { c' with marker := false }) } s2 := by
      intro s2 hl2 hr2
      have hs3 := removeTask_sub s2 i
      obtain ⟨hs4, c4⟩ := cancelIfOwner_sub (removeTask s2 i) c'
      have hr4 : (cancelIfOwner (removeTask s2 i) c').co r = some c' := by
        have : (cancelIfOwner (removeTask s2 i) c').co = (removeTask s2 i).co := by
          unfold cancelIfOwner; split
          · unfold cancelConnection; split
            · simp only []
              have : ∀ (l : List ReqId) (x : State), (dropSenders x l).co = x.co := by
                intro l; induction l with
                | nil => intro x; rfl
                | cons a l ih => intro x; simp only [dropSenders]; rw [ih]; split <;> rfl
              rw [this]
            · rfl
          · rfl
        rw [this]; exact hr2
      have hs5 : Sub { (cancelIfOwner (removeTask s2 i) c') with
                 co := upd (cancelIfOwner (removeTask s2 i) c').co r (some { c' with marker := false }) }
                 (cancelIfOwner (removeTask s2 i) c') := Sub.commit (c' := { c' with marker := false }) hr4 (fun x hx => hx)
      have hall := (hs5.trans hs4).trans hs3
      exact ⟨hl2.sub_eq hall (by show (cancelIfOwner (removeTask s2 i) c').conns = s2.conns; rw [c4]; rfl), hall⟩
    have hr2 : ({ s1 with co := upd s1.co r (some c') } : State).co r = some c' := by simp
    obtain ⟨h5, hs5⟩ := tail _ h2 hr2
    cases pr with
    | pending => exact h2
    | got p =>
      simp only []
      obtain ⟨f, ex⟩ := free2 p rfl
      refine dropPooled_lininv h5 p (fun hn => ?_) ?_
      · have hn2 : NS { s1 with co := upd s1.co r (some c') } p.conn := hs5.ns _ hn
        exact (f hn2).sub hs5
      · have : ({ (cancelIfOwner (removeTask { s1 with co := upd s1.co r (some c') } i) c') with
                 co := upd (cancelIfOwner (removeTask { s1 with co := upd s1.co r (some c') } i) c').co r (some { c' with marker := false }) } : State).conns
            = s1.conns := by
          show (cancelIfOwner (removeTask { s1 with co := upd s1.co r (some c') } i) c').conns = s1.conns
          rw [(cancelIfOwner_sub _ _).2]; rfl
        rw [this]; exact ex
    | err k => exact h5
    | panic => exact h5

/-- a delayed checkout retired without a poll: task removed, marker cancelled if owned, marker flag cleared -/
theorem delayedTail_lininv {s2 : State} (hl2 : LinInv s2) (i : Nat) (r : ReqId) (c' : Checkout) (hr2 : s2.co r = some c') :
    LinInv { (cancelIfOwner (removeTask s2 i) c') with
             co := upd (cancelIfOwner (removeTask s2 i) c').co r (some { c' with marker := false }) } := by
  have hs3 := removeTask_sub s2 i
  obtain ⟨hs4, c4⟩ := cancelIfOwner_sub (removeTask s2 i) c'
  have hr4 : (cancelIfOwner (removeTask s2 i) c').co r = some c' := by
    have : (cancelIfOwner (removeTask s2 i) c').co = (removeTask s2 i).co := by
      unfold cancelIfOwner; split
      · unfold cancelConnection; split
        · simp only []
          have : ∀ (l : List ReqId) (x : State), (dropSenders x l).co = x.co := by
            intro l; induction l with
            | nil => intro x; rfl
            | cons a l ih => intro x; simp only [dropSenders]; rw [ih]; split <;> rfl
          rw [this]
        · rfl
      · rfl
    rw [this]; exact hr2
  have hs5 : Sub { (cancelIfOwner (removeTask s2 i) c') with
             co := upd (cancelIfOwner (removeTask s2 i) c').co r (some { c' with marker := false }) }
             (cancelIfOwner (removeTask s2 i) c') := Sub.commit (c' := { c' with marker := false }) hr4 (fun x hx => hx)
  have hall := (hs5.trans hs4).trans hs3
  exact hl2.sub_eq hall (by show (cancelIfOwner (removeTask s2 i) c').conns = s2.conns; rw [c4]; rfl)

theorem abortTask_lininv {s : State} (h : LinInv s) (i : Nat) : LinInv (abortTask s i) := by
  unfold abortTask
  cases ht : taskOf s i with
  | none => exact h
  | some t =>
    cases t with
    | whenReady c tk hp =>
      have h1 : LinInv (removeTask s i) := h.sub_eq (removeTask_sub s i) rfl
      exact h1.sub_eq (Sub.of_eq rfl rfl rfl rfl rfl rfl) rfl
    | delayed r =>
      simp only []
      cases hco : s.co r with
      | none => exact h.sub_eq (removeTask_sub s i) rfl
      | some c => exact delayedTail_lininv h i r c hco

theorem abortAll_lininv : ∀ (fuel : Nat) (s : State), LinInv s → LinInv (abortAll fuel s)
  | 0, _, h => h
  | fuel + 1, s, h => by
    simp only [abortAll]
    split
    · exact h.sub_eq (Sub.of_eq rfl rfl rfl rfl rfl rfl) rfl
    · exact abortAll_lininv fuel _ (abortTask_lininv h _)

theorem runTask_lininv {s : State} (h : LinInv s) (ho : OriginInv s) (i : Nat) : LinInv (runTask s i) := by
  unfold runTask
  cases ht : taskOf s i with
  | none => exact h
  | some t =>
    cases t with
    | whenReady c tk hp => exact runWhenReady_lininv h i c tk hp (taskOf_mem_id ht)
    | delayed r => exact runDelayed_lininv h ho i r

theorem runAll_lininv : ∀ (fuel : Nat) (s : State), LinInv s → OriginInv s → LinInv (runAll fuel s)
  | 0, _, h, _ => h
  | fuel + 1, s, h, ho => by
    simp only [runAll]
    split
    · exact h
    · rename_i i q hq
      have hq' : LinInv { s with runq := q } := h.sub_eq (Sub.of_eq rfl rfl rfl rfl rfl rfl) rfl
      have hoq : OriginInv { s with runq := q } := ho.congr rfl rfl rfl rfl rfl rfl rfl rfl rfl rfl
      exact runAll_lininv fuel _ (runTask_lininv hq' hoq i) (runTask_inv hoq i)

end Hd.Pool

namespace Hd.Pool

theorem step_lininv (s : State) (op : Op) (h : LinInv s) (ho : OriginInv s) : LinInv (step s op).1 := by
  cases op with
  | issue r k mux =>
    simp only [step]
    cases hco : s.co r with
    | some _ => exact h
    | none =>
      simp only []
      refine ⟨issue_linear h.lin r k mux hco, ?_⟩
      -- nothing new is located: `issue` only moves handles from the idle list to the checkout
      have hconns : (issue s r k mux).conns = s.conns := by
        unfold issue; simp only []
        have : (tokenOf s k).1.conns = s.conns := (tokenOf_sub s k).2.1
        split
        · unfold issueFound; simp only []; split <;> exact this
        · unfold issueMissing; simp only []; split
          · exact this
          · split <;> exact this
      intro x hx
      rw [hconns]
      -- located after ⇒ located before: by cases on where it is
      have hex := (issue_inv ho r k mux hco)
      rcases hx with ⟨t, ht⟩ | ⟨l, hl⟩
      · have : ∃ a, (x, a) ∈ (issue s r k mux).idle t := by
          unfold idleCount at ht
          have := List.count_pos_iff.mp ht
          simp only [List.mem_map] at this
          obtain ⟨⟨x', a⟩, hm, rfl⟩ := this
          exact ⟨a, hm⟩
        obtain ⟨a, ha⟩ := this
        obtain ⟨k', conn, _, hc, _⟩ := hex.idle t x a ha
        rw [← hconns, hc]; rfl
      · cases l with
        | chan r' =>
          obtain ⟨p, hp, rfl⟩ := hl
          obtain ⟨chk, _, ⟨k', conn, _, hc, _⟩, _⟩ := hex.chan r' p hp
          rw [← hconns, hc]; rfl
        | co r' =>
          obtain ⟨chk, hchk, hcc⟩ := hl
          obtain ⟨k', conn, _, hc, _⟩ := hex.co.2 r' chk x hchk hcc
          rw [← hconns, hc]; rfl
        | held r' =>
          obtain ⟨p, hp, rfl⟩ := hl
          obtain ⟨chk, _, ⟨k', conn, _, hc, _⟩, _⟩ := hex.held r' p hp
          rw [← hconns, hc]; rfl
        | task i =>
          obtain ⟨t, hp, hm⟩ := hl
          -- tasks are untouched by `issue`
          have htasks : (issue s r k mux).tasks = s.tasks := by
            unfold issue; simp only []
            have : (tokenOf s k).1.tasks = s.tasks := by unfold tokenOf; split <;> rfl
            split
            · unfold issueFound; simp only []; split <;> exact this
            · unfold issueMissing; simp only []; split
              · exact this
              · split <;> exact this
          rw [htasks] at hm
          exact h.live x (Or.inr ⟨.task i, t, hp, hm⟩)
  | poll r =>
    simp only [step]
    cases hco : s.co r with
    | none => exact h
    | some c =>
      simp only []
      split
      · exact h
      · obtain ⟨h2, free2⟩ := pollCheckout_linear h ho r c hco
        generalize pollCheckout s r c = res at h2 free2
        obtain ⟨s1, c', pr⟩ := res
        simp only [] at h2 free2 ⊢
        cases pr with
        | pending => exact h2
        | err k => exact dropCheckout_lininv h2 r
        | panic => exact dropCheckout_lininv h2 r
        | got p =>
          simp only []
          obtain ⟨f, ex⟩ := free2 p rfl
          have ha : AddAt { s1 with co := upd s1.co r (some c'), held := upd s1.held r (some p) }
              { s1 with co := upd s1.co r (some c') } p.conn (.held r) := AddAt.held r p rfl rfl rfl rfl rfl rfl
          have h3 : LinInv { s1 with co := upd s1.co r (some c'), held := upd s1.held r (some p) } :=
            ⟨h2.lin.addAt ha f, h2.live.conserve_eq ha.conserve rfl (fun x hx => by rw [hx]; exact ex)⟩
          have h4 : LinInv (if canShare { s1 with co := upd s1.co r (some c'), held := upd s1.held r (some p) } p.conn
              then { s1 with co := upd s1.co r (some c'), held := upd s1.held r (some p) }
              else setConn { s1 with co := upd s1.co r (some c'), held := upd s1.held r (some p) } p.conn (fun k => { k with busy := true })) := by
            split
            · exact h3
            · obtain ⟨a, b⟩ := setConn_sub { s1 with co := upd s1.co r (some c'), held := upd s1.held r (some p) } p.conn
                (fun k => { k with busy := true }) (fun _ => rfl)
              exact h3.sub a b
          exact dropCheckout_lininv h4 r
  | cancel r =>
    simp only [step]
    cases hh : s.held r with
    | some p =>
      simp only []
      have hs : Sub { s with held := upd s.held r none } s := by
        refine Sub.of_fields rfl (fun _ _ h => h) (fun _ chk _ h hc => ⟨chk, h, hc⟩) ?_ (fun _ _ _ _ h => h) (fun _ _ => Nat.le_refl _)
        intro r' p' hp'
        by_cases e : r' = r
        · subst e; simp at hp'
        · simpa [upd, e] using hp'
      refine dropPooled_lininv (h.sub_eq hs rfl) p ?_ (h.live p.conn (Or.inr ⟨.held r, p, hh, rfl⟩))
      intro hn
      apply h.lin.nowhere_of_removed hs (l := .held r) hn ⟨p, hh, rfl⟩
      rintro ⟨p', hp', _⟩
      simp at hp'
    | none =>
      simp only []
      cases hco : s.co r with
      | none => exact h
      | some c =>
        simp only []
        split
        · exact dropCheckout_lininv h r
        · exact h
  | cancelOff r =>
    simp only [step]
    cases hh : s.held r with
    | some p =>
      simp only []
      have hs : Sub { s with held := upd s.held r none } s := by
        refine Sub.of_fields rfl (fun _ _ h => h) (fun _ chk _ h hc => ⟨chk, h, hc⟩) ?_ (fun _ _ _ _ h => h) (fun _ _ => Nat.le_refl _)
        intro r' p' hp'
        by_cases e : r' = r
        · subst e; simp at hp'
        · simpa [upd, e] using hp'
      refine abortTask_lininv (dropPooled_lininv (h.sub_eq hs rfl) p ?_ (h.live p.conn (Or.inr ⟨.held r, p, hh, rfl⟩))) _
      intro hn
      apply h.lin.nowhere_of_removed hs (l := .held r) hn ⟨p, hh, rfl⟩
      rintro ⟨p', hp', _⟩
      simp at hp'
    | none => exact h
  | dialDone r o =>
    simp only [step]
    split
    · exact h.sub_eq (Sub.of_eq rfl rfl rfl rfl rfl rfl) rfl
    · exact h
  | finish r =>
    simp only [step]
    cases hh : s.held r with
    | some p =>
      simp only []
      have hs : Sub { s with held := upd s.held r none } s := by
        refine Sub.of_fields rfl (fun _ _ h => h) (fun _ chk _ h hc => ⟨chk, h, hc⟩) ?_ (fun _ _ _ _ h => h) (fun _ _ => Nat.le_refl _)
        intro r' p' hp'
        by_cases e : r' = r
        · subst e; simp at hp'
        · simpa [upd, e] using hp'
      refine dropPooled_lininv (h.sub_eq hs rfl) p ?_ (h.live p.conn (Or.inr ⟨.held r, p, hh, rfl⟩))
      intro hn
      apply h.lin.nowhere_of_removed hs (l := .held r) hn ⟨p, hh, rfl⟩
      rintro ⟨p', hp', _⟩
      simp at hp'
    | none => exact h
  | connReady c =>
    simp only [step]
    split
    · obtain ⟨a, b⟩ := setConn_sub s c (fun k => { k with busy := false }) (fun _ => rfl)
      exact (h.sub a b).sub_eq (Sub.of_eq rfl rfl rfl rfl rfl rfl) rfl
    · exact h
  | connClose c =>
    simp only [step]
    split
    · obtain ⟨a, b⟩ := setConn_sub s c (fun k => { k with isOpen := false }) (fun _ => rfl)
      exact (h.sub a b).sub_eq (Sub.of_eq rfl rfl rfl rfl rfl rfl) rfl
    · exact h
  | connFail c =>
    simp only [step]
    split
    · split
      · obtain ⟨a, b⟩ := setConn_sub s c (fun k => { k with isOpen := false }) (fun _ => rfl)
        exact (h.sub a b).sub_eq (Sub.of_eq rfl rfl rfl rfl rfl rfl) rfl
      · exact h
    · exact h
  | run => exact runAll_lininv _ s h ho
  | tick ms => exact h.sub_eq (Sub.of_eq rfl rfl rfl rfl rfl rfl) rfl
  | mark => exact h
  | shutdown => exact abortAll_lininv _ s h

theorem run_lininv : ∀ (ops : List Op) (s : State), LinInv s → OriginInv s → LinInv (run s ops).1
  | [], _, h, _ => h
  | op :: ops, s, h, ho => by
    simp only [run]
    exact run_lininv ops _ (step_lininv s op h ho) (step_originInv s op ho)

theorem lininv_init (cfg : Config) : LinInv (init cfg) := ⟨linear_init cfg, live_init cfg⟩

end Hd.Pool
