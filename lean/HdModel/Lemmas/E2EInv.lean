import HdModel.Model.E2E
/-! Invariant of the end-to-end message model (`Inv`), preserved by every step. -/
namespace Hd.E2E

/-- every request of the scenario is the one its id looks up (ids are unique) -/
def Table (reqs : List Req) : Prop := ∀ r ∈ reqs, lookup reqs r.id = some r

/-- what has to be true of one connection -/
structure ConnOk (reqs : List Req) (c : Conn) : Prop where
  /-- requests in flight towards / inside the server are scenario requests; on a live HTTP/1
      connection they belong to the request that owns the connection -/
  reqsOk : ∀ q ∈ c.toServer ++ c.inHandler, lookup reqs q.id = some q ∧ (c.h2 = false → c.alive = true → c.owner = some q.id)
  /-- responses in flight: HTTP/2 ones name their stream and are that request's answer; on a live
      HTTP/1 connection they are the answer to the owner's request -/
  respOk : ∀ p ∈ c.toClient,
    (c.h2 = true → ∃ j q, p.1 = some j ∧ lookup reqs j = some q ∧ p.2 = serve q) ∧
    (c.h2 = false → c.alive = true → ∃ i q, c.owner = some i ∧ lookup reqs i = some q ∧ p.2 = serve q)
  /-- a live HTTP/1 connection has at most one exchange in flight -/
  one : c.h2 = false → c.alive = true → c.toServer.length + c.inHandler.length + c.toClient.length ≤ 1

structure Inv (s : St) : Prop where
  conns : ∀ c ∈ s.conns, ConnOk s.reqs c
  delivered : ∀ p ∈ s.delivered, ∃ q, lookup s.reqs p.1 = some q ∧ p.2 = serve q
  log : ∀ q ∈ s.serverLog, lookup s.reqs q.id = some q

theorem mem_updConn {cs : List Conn} {k : Nat} {f : Conn → Conn} {c : Conn} (h : c ∈ updConn cs k f) :
    c ∈ cs ∨ ∃ c0, cs[k]? = some c0 ∧ c = f c0 := by
  unfold updConn at h
  rw [List.mem_mapIdx] at h
  obtain ⟨j, hj, hc⟩ := h
  by_cases hjk : j = k
  · subst hjk
    right
    refine ⟨cs[j], by simp [hj], ?_⟩
    simpa using hc.symm
  · left
    simp only [hjk, if_false] at hc
    rw [← hc]; exact List.getElem_mem hj

/-- an idle live HTTP/1 connection has nothing in flight -/
theorem idle_empty {reqs : List Req} {c : Conn} (h : ConnOk reqs c) (h1 : c.h2 = false) (ha : c.alive = true)
    (ho : c.owner = none) : c.toServer = [] ∧ c.inHandler = [] ∧ c.toClient = [] := by
  have e1 : c.toServer ++ c.inHandler = [] := by
    cases hl : c.toServer ++ c.inHandler with
    | nil => rfl
    | cons q rest =>
      have := (h.reqsOk q (by rw [hl]; exact List.mem_cons_self)).2 h1 ha
      rw [ho] at this; cases this
  have e2 : c.toClient = [] := by
    cases hl : c.toClient with
    | nil => rfl
    | cons p rest =>
      obtain ⟨i, q, hi, _⟩ := (h.respOk p (by rw [hl]; exact List.mem_cons_self)).2 h1 ha
      rw [ho] at hi; cases hi
  simp only [List.append_eq_nil_iff] at e1
  exact ⟨e1.1, e1.2, e2⟩

theorem writeReq_ok {reqs : List Req} {c : Conn} {r : Req} (h : ConnOk reqs c) (hr : lookup reqs r.id = some r)
    (he : eligible r c = true) : ConnOk reqs (writeReq r c) := by
  simp only [eligible, Bool.and_eq_true, Bool.or_eq_true] at he
  obtain ⟨⟨ha, _⟩, hfree⟩ := he
  cases hh : c.h2 with
  | true =>
    refine ⟨?_, ?_, ?_⟩
    · intro q hq
      simp only [writeReq, hh, if_true, List.append_assoc, List.mem_append, List.mem_singleton] at hq ⊢
      rcases hq with hq | hq | hq
      · exact ⟨(h.reqsOk q (List.mem_append_left _ hq)).1, by simp⟩
      · subst hq; exact ⟨hr, by simp⟩
      · exact ⟨(h.reqsOk q (List.mem_append_right _ hq)).1, by simp⟩
    · intro p hp
      simp only [writeReq, hh, if_true] at hp ⊢
      exact ⟨fun _ => (h.respOk p hp).1 hh, by simp⟩
    · simp [writeReq, hh]
  | false =>
    have ho : c.owner = none := by
      rcases hfree with h2 | h2
      · rw [hh] at h2; cases h2
      · simpa using h2
    obtain ⟨e1, e2, e3⟩ := idle_empty h hh ha ho
    refine ⟨?_, ?_, ?_⟩
    · intro q hq
      simp only [writeReq, hh, e1, e2, List.nil_append, List.append_nil, List.mem_singleton, Bool.false_eq_true, if_false] at hq ⊢
      subst hq; exact ⟨hr, fun _ _ => rfl⟩
    · intro p hp
      simp [writeReq, e3] at hp
    · simp [writeReq, hh, e1, e2, e3]

theorem newConn_ok {reqs : List Req} {r : Req} (hr : lookup reqs r.id = some r) : ConnOk reqs (newConn r) := by
  unfold newConn
  apply writeReq_ok _ hr
  · simp [eligible]
  · exact ⟨by simp, by simp, by simp⟩

theorem srvRead_ok {reqs : List Req} {c : Conn} (h : ConnOk reqs c) : ConnOk reqs (srvReadConn c).1 := by
  unfold srvReadConn
  cases hl : c.toServer with
  | nil => simpa using h
  | cons q rest =>
    simp only []
    refine ⟨?_, ?_, ?_⟩
    · intro x hx
      have hx' : x ∈ rest ∨ x ∈ c.inHandler ∨ x = q := by simpa [List.mem_append] using hx
      have hm : x ∈ c.toServer ++ c.inHandler := by
        rw [hl]
        simp only [List.mem_append, List.mem_cons]
        rcases hx' with h1 | h1 | h1
        · exact Or.inl (Or.inr h1)
        · exact Or.inr h1
        · exact Or.inl (Or.inl h1)
      exact h.reqsOk x hm
    · exact h.respOk
    · intro a b
      have := h.one a b
      simp only [hl, List.length_cons, List.length_append, List.length_nil] at this ⊢
      omega

theorem srvRead_logged {reqs : List Req} {c : Conn} {q : Req} (h : ConnOk reqs c) (hq : (srvReadConn c).2 = some q) :
    lookup reqs q.id = some q := by
  unfold srvReadConn at hq
  cases hl : c.toServer with
  | nil => simp [hl] at hq
  | cons x rest =>
    simp only [hl, Option.some.injEq] at hq
    subst hq
    exact (h.reqsOk x (by simp [hl])).1

theorem mem_removeAt {α} {x : α} : ∀ {l : List α} {k : Nat}, x ∈ removeAt l k → x ∈ l
  | [], _, h => by simp [removeAt] at h
  | _ :: _, 0, h => List.mem_cons_of_mem _ (by simpa [removeAt] using h)
  | y :: ys, k + 1, h => by
    simp only [removeAt, List.mem_cons] at h ⊢
    rcases h with h | h
    · exact Or.inl h
    · exact Or.inr (mem_removeAt h)

theorem length_removeAt {α} : ∀ (l : List α) (k : Nat), k < l.length → (removeAt l k).length + 1 = l.length
  | [], _, h => by simp at h
  | _ :: _, 0, _ => by simp [removeAt]
  | y :: ys, k + 1, h => by
    simp only [removeAt, List.length_cons]
    have := length_removeAt ys k (by simpa using h)
    omega

theorem srvReply_ok {reqs : List Req} {c : Conn} (k : Nat) (h : ConnOk reqs c) : ConnOk reqs (srvReplyConn c k) := by
  unfold srvReplyConn
  split
  · exact h
  · cases hk : c.inHandler[k]? with
    | none => simpa using h
    | some q =>
      simp only []
      have hqmem : q ∈ c.inHandler := List.mem_of_getElem? hk
      have hq := h.reqsOk q (List.mem_append_right _ hqmem)
      have hklt : k < c.inHandler.length := by
        rcases Nat.lt_or_ge k c.inHandler.length with h' | h'
        · exact h'
        · rw [List.getElem?_eq_none_iff.mpr h'] at hk; cases hk
      refine ⟨?_, ?_, ?_⟩
      · intro x hx
        apply h.reqsOk x
        simp only [List.mem_append] at hx ⊢
        rcases hx with hx | hx
        · exact Or.inl hx
        · exact Or.inr (mem_removeAt hx)
      · intro p hp
        simp only [List.mem_append, List.mem_singleton] at hp
        rcases hp with hp | hp
        · exact h.respOk p hp
        · subst hp
          refine ⟨fun h2 => ?_, fun h1 ha => ⟨q.id, q, hq.2 h1 ha, hq.1, rfl⟩⟩
          have h2' : c.h2 = true := h2
          exact ⟨q.id, q, by simp [h2'], hq.1, rfl⟩
      · intro a b
        have := h.one a b
        have hl := length_removeAt c.inHandler k hklt
        simp only [List.length_append, List.length_cons, List.length_nil] at this ⊢
        omega

theorem cliRead_ok {reqs : List Req} {c : Conn} (h : ConnOk reqs c) : ConnOk reqs (cliReadConn c).1 := by
  unfold cliReadConn
  split
  · exact h
  · cases hl : c.toClient with
    | nil => simpa using h
    | cons p rest =>
      obtain ⟨tag, r⟩ := p
      simp only []
      cases hh : c.h2 with
      | true =>
        simp only [if_true]
        refine ⟨?_, ?_, ?_⟩
        · intro x hx; have := h.reqsOk x hx; exact ⟨this.1, by simp⟩
        · intro x hx
          have := h.respOk x (by rw [hl]; exact List.mem_cons_of_mem _ hx)
          exact ⟨fun _ => this.1 hh, by simp⟩
        · simp
      | false =>
        simp only [Bool.false_eq_true, if_false]
        rename_i hal
        have ha : c.alive = true := by simpa using hal
        have hone := h.one hh ha
        simp only [hl, List.length_cons] at hone
        have e1 : c.toServer = [] := List.eq_nil_of_length_eq_zero (by omega)
        have e2 : c.inHandler = [] := List.eq_nil_of_length_eq_zero (by omega)
        have e3 : rest = [] := List.eq_nil_of_length_eq_zero (by omega)
        refine ⟨?_, ?_, ?_⟩
        · intro x hx; simp [e1, e2] at hx
        · intro x hx; simp [e3] at hx
        · simp [e1, e2, e3]

theorem cliRead_delivery {reqs : List Req} {c : Conn} {i : Nat} {r : Resp} (h : ConnOk reqs c)
    (hd : (cliReadConn c).2 = some (i, r)) : ∃ q, lookup reqs i = some q ∧ r = serve q := by
  unfold cliReadConn at hd
  split at hd
  · cases hd
  · rename_i hal
    have ha : c.alive = true := by simpa using hal
    cases hl : c.toClient with
    | nil => simp [hl] at hd
    | cons p rest =>
      obtain ⟨tag, r'⟩ := p
      have hp := h.respOk (tag, r') (by rw [hl]; exact List.mem_cons_self)
      simp only [hl] at hd
      cases hh : c.h2 with
      | true =>
        simp only [hh, if_true] at hd
        obtain ⟨j, q, hj, hq, hr⟩ := hp.1 hh
        simp only [] at hj hr
        subst hj
        simp only [Option.map_some, Option.some.injEq, Prod.mk.injEq] at hd
        obtain ⟨rfl, rfl⟩ := hd
        exact ⟨q, hq, hr⟩
      | false =>
        simp only [hh, Bool.false_eq_true, if_false] at hd
        obtain ⟨j, q, hj, hq, hr⟩ := hp.2 hh ha
        simp only [] at hr
        rw [hj] at hd
        simp only [Option.map_some, Option.some.injEq, Prod.mk.injEq] at hd
        obtain ⟨rfl, rfl⟩ := hd
        exact ⟨q, hq, hr⟩

theorem cancel_ok {reqs : List Req} {c : Conn} (i : Nat) (h : ConnOk reqs c) : ConnOk reqs (cancelConn i c) := by
  unfold cancelConn
  split
  · rename_i hc
    simp only [Bool.and_eq_true, Bool.not_eq_true'] at hc
    refine ⟨?_, ?_, ?_⟩
    · intro q hq; exact ⟨(h.reqsOk q hq).1, by simp⟩
    · intro p hp
      exact ⟨fun h2 => (by rw [hc.1] at h2; cases h2), by simp⟩
    · simp
  · exact h

theorem lookup_some_id {reqs : List Req} {i : Nat} {r : Req} (h : lookup reqs i = some r) : r.id = i := by
  unfold lookup at h
  have := List.find?_some h
  simpa using this

/-- the invariant is kept by every step -/
theorem inv_step (s : St) (op : Op) (h : Inv s) : Inv (step s op) ∧ (step s op).reqs = s.reqs := by
  cases op with
  | issue i k =>
    simp only [step]
    cases hr : lookup s.reqs i with
    | none => exact ⟨h, by first | rfl | trivial⟩
    | some r =>
      cases hc : s.conns[k]? with
      | none => exact ⟨h, by first | rfl | trivial⟩
      | some c =>
        simp only []
        split
        · exact ⟨h, by first | rfl | trivial⟩
        · rename_i hg
          simp only [Bool.or_eq_true, Bool.not_eq_true', not_or, Bool.not_eq_true] at hg
          have hel : eligible r c = true := by simpa using hg.2
          have hid := lookup_some_id hr
          have hr' : lookup s.reqs r.id = some r := by rw [hid]; exact hr
          refine ⟨⟨?_, h.delivered, h.log⟩, by first | rfl | trivial⟩
          intro c' hc'
          rcases mem_updConn hc' with hm | ⟨c0, hc0, rfl⟩
          · exact h.conns c' hm
          · rw [hc] at hc0; cases hc0
            exact writeReq_ok (h.conns c (List.mem_of_getElem? hc)) hr' hel
  | issueNew i =>
    simp only [step]
    cases hr : lookup s.reqs i with
    | none => exact ⟨h, by first | rfl | trivial⟩
    | some r =>
      simp only []
      split
      · exact ⟨h, by first | rfl | trivial⟩
      · have hid := lookup_some_id hr
        have hr' : lookup s.reqs r.id = some r := by rw [hid]; exact hr
        refine ⟨⟨?_, h.delivered, h.log⟩, by first | rfl | trivial⟩
        intro c' hc'
        simp only [List.mem_append, List.mem_singleton] at hc'
        rcases hc' with hm | rfl
        · exact h.conns c' hm
        · exact newConn_ok hr'
  | srvRead k =>
    simp only [step]
    cases hc : s.conns[k]? with
    | none => exact ⟨h, by first | rfl | trivial⟩
    | some c =>
      simp only []
      have hcok := h.conns c (List.mem_of_getElem? hc)
      cases hq : (srvReadConn c).2 with
      | none => exact ⟨h, by first | rfl | trivial⟩
      | some q =>
        simp only []
        refine ⟨⟨?_, h.delivered, ?_⟩, by first | rfl | trivial⟩
        · intro c' hc'
          rcases mem_updConn hc' with hm | ⟨c0, hc0, rfl⟩
          · exact h.conns c' hm
          · exact srvRead_ok (h.conns c0 (List.mem_of_getElem? hc0))
        · intro x hx
          simp only [List.mem_append, List.mem_singleton] at hx
          rcases hx with hx | rfl
          · exact h.log x hx
          · exact srvRead_logged hcok hq
  | srvReply k j =>
    simp only [step]
    refine ⟨⟨?_, h.delivered, h.log⟩, by first | rfl | trivial⟩
    intro c' hc'
    rcases mem_updConn hc' with hm | ⟨c0, hc0, rfl⟩
    · exact h.conns c' hm
    · exact srvReply_ok j (h.conns c0 (List.mem_of_getElem? hc0))
  | cliRead k =>
    simp only [step]
    cases hc : s.conns[k]? with
    | none => exact ⟨h, by first | rfl | trivial⟩
    | some c =>
      simp only []
      have hcok := h.conns c (List.mem_of_getElem? hc)
      have hconns : ∀ c' ∈ updConn s.conns k (fun c => (cliReadConn c).1), ConnOk s.reqs c' := by
        intro c' hc'
        rcases mem_updConn hc' with hm | ⟨c0, hc0, rfl⟩
        · exact h.conns c' hm
        · exact cliRead_ok (h.conns c0 (List.mem_of_getElem? hc0))
      cases hd : (cliReadConn c).2 with
      | none => exact ⟨⟨hconns, h.delivered, h.log⟩, by first | rfl | trivial⟩
      | some p =>
        obtain ⟨i, r⟩ := p
        simp only []
        split
        · exact ⟨⟨hconns, h.delivered, h.log⟩, by first | rfl | trivial⟩
        · refine ⟨⟨hconns, ?_, h.log⟩, by first | rfl | trivial⟩
          intro x hx
          simp only [List.mem_append, List.mem_singleton] at hx
          rcases hx with hx | rfl
          · exact h.delivered x hx
          · exact cliRead_delivery hcok hd
  | cancel i =>
    simp only [step]
    cases hr : lookup s.reqs i with
    | none => exact ⟨h, by first | rfl | trivial⟩
    | some r =>
      simp only []
      split
      · exact ⟨h, by first | rfl | trivial⟩
      · refine ⟨⟨?_, h.delivered, h.log⟩, by first | rfl | trivial⟩
        intro c' hc'
        simp only [List.mem_map] at hc'
        obtain ⟨c0, hc0, rfl⟩ := hc'
        exact cancel_ok i (h.conns c0 hc0)

theorem inv_init (reqs : List Req) : Inv (init reqs) :=
  ⟨by simp [init], by simp [init], by simp [init]⟩

theorem inv_run (reqs : List Req) (ops : List Op) : Inv (run reqs ops) ∧ (run reqs ops).reqs = reqs := by
  unfold run
  have key : ∀ (ops : List Op) (s : St), Inv s → Inv (ops.foldl step s) ∧ (ops.foldl step s).reqs = s.reqs := by
    intro ops
    induction ops with
    | nil => intro s h; exact ⟨h, rfl⟩
    | cons op ops ih =>
      intro s h
      simp only [List.foldl_cons]
      obtain ⟨h1, h2⟩ := inv_step s op h
      obtain ⟨h3, h4⟩ := ih _ h1
      exact ⟨h3, h4.trans h2⟩
  exact key ops (init reqs) (inv_init reqs)

end Hd.E2E
