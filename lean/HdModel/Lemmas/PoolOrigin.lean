import HdModel.Lemmas.PoolKeys
/-! Origin invariant of the pool model: every connection stored anywhere in the pool, travelling in
    a channel, held by a checkout or by the inner service, or waiting in a `WhenReady` task, belongs
    to the origin (key) of the token it is filed under. -/
namespace Hd.Pool

/-- connection `c` exists and belongs to the origin whose token is `t` -/
def ConnTok (s : State) (t : Token) (c : ConnId) : Prop :=
  ∃ k conn, s.keys.lookup k = some t ∧ s.conns c = some conn ∧ conn.origin = k

/-- later state: the token table only grows, connections keep their origin -/
structure Ext (s s' : State) : Prop where
  keys : ∀ k t, s.keys.lookup k = some t → s'.keys.lookup k = some t
  conns : ∀ c conn, s.conns c = some conn → ∃ conn', s'.conns c = some conn' ∧ conn'.origin = conn.origin

theorem Ext.refl (s : State) : Ext s s := ⟨fun _ _ h => h, fun _ conn h => ⟨conn, h, rfl⟩⟩

theorem Ext.trans {a b c : State} (h1 : Ext a b) (h2 : Ext b c) : Ext a c :=
  ⟨fun k t h => h2.keys k t (h1.keys k t h),
   fun x conn h => by
     obtain ⟨c1, hc1, ho1⟩ := h1.conns x conn h
     obtain ⟨c2, hc2, ho2⟩ := h2.conns x c1 hc1
     exact ⟨c2, hc2, ho2.trans ho1⟩⟩

theorem Ext.of_eq {s s' : State} (hk : s'.keys = s.keys) (hc : s'.conns = s.conns) : Ext s s' :=
  ⟨fun _ _ h => by rw [hk]; exact h, fun _ conn h => ⟨conn, by rw [hc]; exact h, rfl⟩⟩

theorem ConnTok.ext {s s' : State} {t : Token} {c : ConnId} (e : Ext s s') (h : ConnTok s t c) : ConnTok s' t c := by
  obtain ⟨k, conn, hk, hc, ho⟩ := h
  obtain ⟨conn', hc', ho'⟩ := e.conns c conn hc
  exact ⟨k, conn', e.keys k t hk, hc', ho'.trans ho⟩

/-- a `Pooled` handle is filed under the right token (or under none) -/
def PooledOk (s : State) (p : Pooled) : Prop := p.token = 0 ∨ ConnTok s p.token p.conn

def IdleOk (s : State) (idle : Token → List (ConnId × Nat)) : Prop :=
  ∀ t c a, (c, a) ∈ idle t → ConnTok s t c

def CoOk (s : State) (co : ReqId → Option Checkout) : Prop :=
  (∀ r chk, co r = some chk → s.keys.lookup chk.key = some chk.token) ∧
  (∀ r chk c, co r = some chk → chk.conn = some c → ConnTok s chk.token c)

def WaitOk (co : ReqId → Option Checkout) (waiting : Token → List ReqId) : Prop :=
  ∀ t r, r ∈ waiting t → ∃ chk, co r = some chk ∧ chk.token = t

/-- a handle `p` on its way to / in the hands of request `r` -/
def ForReq (s : State) (co : ReqId → Option Checkout) (r : ReqId) (p : Pooled) : Prop :=
  ∃ chk, co r = some chk ∧ ConnTok s chk.token p.conn ∧ (p.token = 0 ∨ p.token = chk.token)

def ChanOk (s : State) (co : ReqId → Option Checkout) (chan : ReqId → Chan) : Prop :=
  ∀ r p, chan r = .full p → ForReq s co r p

def TasksOk (s : State) (tasks : List (Nat × Task)) : Prop :=
  ∀ i c t hp, (i, Task.whenReady c t hp) ∈ tasks → t = 0 ∨ ConnTok s t c

def HeldOk (s : State) (co : ReqId → Option Checkout) (held : ReqId → Option Pooled) : Prop :=
  ∀ r p, held r = some p → ForReq s co r p

def Fresh (s : State) : Prop := ∀ c conn, s.conns c = some conn → c < s.nextConn

structure OriginInv (s : State) : Prop where
  keysOk : KeysOk s
  fresh : Fresh s
  idle : IdleOk s s.idle
  co : CoOk s s.co
  waiting : WaitOk s.co s.waiting
  chan : ChanOk s s.co s.chan
  tasks : TasksOk s s.tasks
  held : HeldOk s s.co s.held

theorem originInv_init (cfg : Config) : OriginInv (init cfg) := by
  refine ⟨keysOk_init cfg, ?_, ?_, ?_, ?_, ?_, ?_, ?_⟩ <;>
    simp [init, Fresh, IdleOk, CoOk, WaitOk, ChanOk, TasksOk, HeldOk]

/-! monotonicity in the environment part of the state -/
theorem IdleOk.ext {s s' : State} {idle} (e : Ext s s') (h : IdleOk s idle) : IdleOk s' idle :=
  fun t c a hm => (h t c a hm).ext e

theorem CoOk.ext {s s' : State} {co} (e : Ext s s') (h : CoOk s co) : CoOk s' co :=
  ⟨fun r chk hr => e.keys _ _ (h.1 r chk hr), fun r chk c hr hc => (h.2 r chk c hr hc).ext e⟩

theorem ForReq.ext {s s' : State} {co r p} (e : Ext s s') (h : ForReq s co r p) : ForReq s' co r p := by
  obtain ⟨chk, h1, h2, h3⟩ := h
  exact ⟨chk, h1, h2.ext e, h3⟩

theorem ChanOk.ext {s s' : State} {co chan} (e : Ext s s') (h : ChanOk s co chan) : ChanOk s' co chan :=
  fun r p hr => (h r p hr).ext e

theorem TasksOk.ext {s s' : State} {tasks} (e : Ext s s') (h : TasksOk s tasks) : TasksOk s' tasks :=
  fun i c t hp hm => (h i c t hp hm).imp id (fun x => x.ext e)

theorem HeldOk.ext {s s' : State} {co held} (e : Ext s s') (h : HeldOk s co held) : HeldOk s' co held :=
  fun r p hr => (h r p hr).ext e

/-- `co'` keeps every checkout's key and token -/
def CoSame (co co' : ReqId → Option Checkout) : Prop :=
  ∀ r chk, co r = some chk → ∃ chk', co' r = some chk' ∧ chk'.token = chk.token ∧ chk'.key = chk.key

theorem CoSame.refl (co : ReqId → Option Checkout) : CoSame co co := fun _ chk h => ⟨chk, h, rfl, rfl⟩

theorem WaitOk.co {co co' waiting} (hs : CoSame co co') (h : WaitOk co waiting) : WaitOk co' waiting := by
  intro t r hr
  obtain ⟨chk, h1, h2⟩ := h t r hr
  obtain ⟨chk', h1', h2', _⟩ := hs r chk h1
  exact ⟨chk', h1', h2'.trans h2⟩

theorem ForReq.co {s : State} {co co' r p} (hs : CoSame co co') (h : ForReq s co r p) : ForReq s co' r p := by
  obtain ⟨chk, h1, h2, h3⟩ := h
  obtain ⟨chk', h1', h2', _⟩ := hs r chk h1
  exact ⟨chk', h1', by rw [h2']; exact h2, by rw [h2']; exact h3⟩

theorem ChanOk.co {s : State} {co co' chan} (hs : CoSame co co') (h : ChanOk s co chan) : ChanOk s co' chan :=
  fun r p hr => (h r p hr).co hs

theorem HeldOk.co {s : State} {co co' held} (hs : CoSame co co') (h : HeldOk s co held) : HeldOk s co' held :=
  fun r p hr => (h r p hr).co hs

/-- replacing one checkout by one with the same key and token -/
theorem CoSame.update {co : ReqId → Option Checkout} {r : ReqId} {chk chk' : Checkout} (h : co r = some chk)
    (ht : chk'.token = chk.token) (hk : chk'.key = chk.key) : CoSame co (Hd.Pool.upd co r (some chk')) := by
  intro r' c hr'
  by_cases e : r' = r
  · subst e
    rw [h] at hr'; cases hr'
    exact ⟨chk', by simp, ht, hk⟩
  · exact ⟨c, by simp [Hd.Pool.upd, e, hr'], rfl, rfl⟩

/-- a request that has no checkout yet is mentioned nowhere -/
theorem CoSame.update_new {co : ReqId → Option Checkout} {r : ReqId} {chk' : Checkout} (h : co r = none) :
    CoSame co (Hd.Pool.upd co r (some chk')) := by
  intro r' c hr'
  by_cases e : r' = r
  · subst e; rw [h] at hr'; cases hr'
  · exact ⟨c, by simp [Hd.Pool.upd, e, hr'], rfl, rfl⟩

/-- two keys with the same token are the same key: a connection filed under a checkout's token
    belongs to the checkout's key -/
theorem ConnTok.origin_eq {s : State} {t : Token} {c : ConnId} {k : KeyId} (hk : KeysOk s)
    (h : ConnTok s t c) (hl : s.keys.lookup k = some t) : ∃ conn, s.conns c = some conn ∧ conn.origin = k := by
  obtain ⟨k', conn, hk', hc, ho⟩ := h
  exact ⟨conn, hc, ho.trans (hk.2.2 k' k t hk' hl)⟩

end Hd.Pool

namespace Hd.Pool

/-- the invariant only looks at these fields -/
theorem OriginInv.congr {s s' : State} (h : OriginInv s) (hk : s'.keys = s.keys) (hcnt : s'.counter = s.counter)
    (hc : s'.conns = s.conns) (hn : s'.nextConn = s.nextConn) (hi : s'.idle = s.idle) (hco : s'.co = s.co)
    (hw : s'.waiting = s.waiting) (hch : s'.chan = s.chan) (ht : s'.tasks = s.tasks) (hh : s'.held = s.held) :
    OriginInv s' := by
  have e : Ext s s' := Ext.of_eq hk hc
  refine ⟨?_, ?_, ?_, ?_, ?_, ?_, ?_, ?_⟩
  · unfold KeysOk; rw [hk, hcnt]; exact h.keysOk
  · unfold Fresh; rw [hc, hn]; exact h.fresh
  · rw [hi]; exact h.idle.ext e
  · rw [hco]; exact h.co.ext e
  · rw [hco, hw]; exact h.waiting
  · rw [hco, hch]; exact h.chan.ext e
  · rw [ht]; exact h.tasks.ext e
  · rw [hco, hh]; exact h.held.ext e

theorem OriginInv.setChan {s : State} (h : OriginInv s) (r : ReqId) (v : Chan)
    (hv : ∀ p, v = .full p → ForReq s s.co r p) : OriginInv { s with chan := upd s.chan r v } := by
  refine ⟨h.keysOk, h.fresh, h.idle, h.co, h.waiting, ?_, h.tasks, h.held⟩
  intro r' p hr'
  by_cases e : r' = r
  · subst e; simp only [upd_same] at hr'; exact hv p hr'
  · simp only [upd, e, if_false] at hr'; exact h.chan r' p hr'

theorem OriginInv.setWaiting {s : State} (h : OriginInv s) (t : Token) (l : List ReqId)
    (hl : ∀ r ∈ l, ∃ chk, s.co r = some chk ∧ chk.token = t) : OriginInv { s with waiting := upd s.waiting t l } := by
  refine ⟨h.keysOk, h.fresh, h.idle, h.co, ?_, h.chan, h.tasks, h.held⟩
  intro t' r hr
  by_cases e : t' = t
  · subst e; simp only [upd_same] at hr; exact hl r hr
  · simp only [upd, e, if_false] at hr; exact h.waiting t' r hr

theorem OriginInv.setIdle {s : State} (h : OriginInv s) (t : Token) (l : List (ConnId × Nat))
    (hl : ∀ c a, (c, a) ∈ l → ConnTok s t c) : OriginInv { s with idle := upd s.idle t l } := by
  refine ⟨h.keysOk, h.fresh, ?_, h.co, h.waiting, h.chan, h.tasks, h.held⟩
  intro t' c a hm
  by_cases e : t' = t
  · subst e; simp only [upd_same] at hm; exact hl c a hm
  · simp only [upd, e, if_false] at hm; exact h.idle t' c a hm

theorem OriginInv.setTasks {s : State} (h : OriginInv s) (l : List (Nat × Task)) (n : Nat) (q : List Nat)
    (hl : TasksOk s l) : OriginInv { s with tasks := l, nextTask := n, runq := q } :=
  ⟨h.keysOk, h.fresh, h.idle, h.co, h.waiting, h.chan, hl, h.held⟩

theorem OriginInv.setHeld {s : State} (h : OriginInv s) (r : ReqId) (v : Option Pooled)
    (hv : ∀ p, v = some p → ForReq s s.co r p) : OriginInv { s with held := upd s.held r v } := by
  refine ⟨h.keysOk, h.fresh, h.idle, h.co, h.waiting, h.chan, h.tasks, ?_⟩
  intro r' p hr'
  by_cases e : r' = r
  · subst e; simp only [upd_same] at hr'; exact hv p hr'
  · simp only [upd, e, if_false] at hr'; exact h.held r' p hr'

/-- replace the checkout of `r` by one with the same key and token -/
theorem OriginInv.setCo {s : State} (h : OriginInv s) (r : ReqId) (chk chk' : Checkout) (hr : s.co r = some chk)
    (ht : chk'.token = chk.token) (hk : chk'.key = chk.key)
    (hc : ∀ c, chk'.conn = some c → ConnTok s chk'.token c) : OriginInv { s with co := upd s.co r (some chk') } := by
  have hs : CoSame s.co (upd s.co r (some chk')) := CoSame.update hr ht hk
  refine ⟨h.keysOk, h.fresh, h.idle, ⟨?_, ?_⟩, h.waiting.co hs, h.chan.co hs, h.tasks, h.held.co hs⟩
  · intro r' c hr'
    by_cases e : r' = r
    · subst e; simp only [upd_same, Option.some.injEq] at hr'; subst hr'
      rw [hk, ht]; exact h.co.1 r' chk hr
    · simp only [upd, e, if_false] at hr'; exact h.co.1 r' c hr'
  · intro r' c cid hr' hcid
    by_cases e : r' = r
    · subst e; simp only [upd_same, Option.some.injEq] at hr'; subst hr'; exact hc cid hcid
    · simp only [upd, e, if_false] at hr'; exact h.co.2 r' c cid hr' hcid

/-- a new checkout for a request that has none -/
theorem OriginInv.newCo {s : State} (h : OriginInv s) (r : ReqId) (chk' : Checkout) (hr : s.co r = none)
    (hk : s.keys.lookup chk'.key = some chk'.token)
    (hc : ∀ c, chk'.conn = some c → ConnTok s chk'.token c) : OriginInv { s with co := upd s.co r (some chk') } := by
  have hs : CoSame s.co (upd s.co r (some chk')) := CoSame.update_new hr
  refine ⟨h.keysOk, h.fresh, h.idle, ⟨?_, ?_⟩, h.waiting.co hs, h.chan.co hs, h.tasks, h.held.co hs⟩
  · intro r' c hr'
    by_cases e : r' = r
    · subst e; simp only [upd_same, Option.some.injEq] at hr'; subst hr'; exact hk
    · simp only [upd, e, if_false] at hr'; exact h.co.1 r' c hr'
  · intro r' c cid hr' hcid
    by_cases e : r' = r
    · subst e; simp only [upd_same, Option.some.injEq] at hr'; subst hr'; exact hc cid hcid
    · simp only [upd, e, if_false] at hr'; exact h.co.2 r' c cid hr' hcid

/-! ### the pool primitives -/

theorem spawn_inv {s : State} (h : OriginInv s) (t : Task)
    (ht : ∀ c tk hp, t = .whenReady c tk hp → tk = 0 ∨ ConnTok s tk c) : OriginInv (spawn s t) := by
  unfold spawn
  apply h.setTasks
  intro i c tk hp hm
  simp only [List.mem_append, List.mem_singleton, Prod.mk.injEq] at hm
  rcases hm with hm | ⟨_, hm⟩
  · exact h.tasks i c tk hp hm
  · exact ht c tk hp hm.symm

theorem spawn_ext (s : State) (t : Task) : Ext s (spawn s t) := Ext.of_eq rfl rfl
theorem spawn_co (s : State) (t : Task) : (spawn s t).co = s.co := rfl

theorem dropPooled_inv {s : State} (h : OriginInv s) (p : Pooled) (hp : PooledOk s p) : OriginInv (dropPooled s p) := by
  unfold dropPooled
  split
  · exact h
  · apply spawn_inv h
    intro c tk hp' e
    cases e
    exact hp

theorem dropPooled_ext (s : State) (p : Pooled) : Ext s (dropPooled s p) := by
  unfold dropPooled; split
  · exact Ext.refl s
  · exact spawn_ext s _

theorem dropPooled_co (s : State) (p : Pooled) : (dropPooled s p).co = s.co := by
  unfold dropPooled; split <;> rfl

/-- what `ForReq` gives for dropping the handle -/
theorem ForReq.pooledOk {s : State} {r : ReqId} {p : Pooled} (h : ForReq s s.co r p) : PooledOk s p := by
  obtain ⟨chk, _, h2, h3⟩ := h
  rcases h3 with h3 | h3
  · exact Or.inl h3
  · exact Or.inr (by rw [h3]; exact h2)

end Hd.Pool

namespace Hd.Pool

theorem pushLoop_inv (token : Token) (c : ConnId) : ∀ (q : List ReqId) (s : State), OriginInv s → ConnTok s token c →
    (∀ r ∈ q, ∃ chk, s.co r = some chk ∧ chk.token = token) →
    OriginInv (pushLoop s token c q).1 ∧ Ext s (pushLoop s token c q).1 ∧ (pushLoop s token c q).1.co = s.co
  | [], s, h, _, _ => by
    simp only [pushLoop]
    exact ⟨h.setWaiting token [] (by simp), Ext.of_eq rfl rfl, by first | rfl | trivial⟩
  | r :: rest, s, h, hc, hq => by
    have hrest : ∀ r' ∈ rest, ∃ chk, s.co r' = some chk ∧ chk.token = token :=
      fun r' hr' => hq r' (List.mem_cons_of_mem _ hr')
    obtain ⟨chk, hchk, htok⟩ := hq r List.mem_cons_self
    simp only [pushLoop]
    split
    · split
      · -- shareable: a clone goes to this waiter, the loop goes on
        have h1 : OriginInv { s with chan := upd s.chan r (.full ⟨c, 0, true⟩) } := by
          apply h.setChan
          intro p hp; cases hp
          exact ⟨chk, hchk, by rw [htok]; exact hc, Or.inl rfl⟩
        obtain ⟨a, b, d⟩ := pushLoop_inv token c rest _ h1 (hc.ext (Ext.of_eq rfl rfl)) hrest
        have e1 : Ext s { s with chan := upd s.chan r (.full ⟨c, 0, true⟩) } := Ext.of_eq rfl rfl
        exact ⟨a, e1.trans b, d⟩
      · have h1 : OriginInv { s with chan := upd s.chan r (.full ⟨c, token, true⟩) } := by
          apply h.setChan
          intro p hp; cases hp
          exact ⟨chk, hchk, by rw [htok]; exact hc, Or.inr htok.symm⟩
        exact ⟨h1.setWaiting token rest hrest, Ext.of_eq rfl rfl, by first | rfl | trivial⟩
    · exact pushLoop_inv token c rest s h hc hrest

theorem clearMarker_inv {s : State} (h : OriginInv s) (t : Token) (c : ConnId) : OriginInv (clearMarker s t c) := by
  unfold clearMarker; split
  · exact h.congr rfl rfl rfl rfl rfl rfl rfl rfl rfl rfl
  · exact h

theorem clearMarker_ext (s : State) (t : Token) (c : ConnId) : Ext s (clearMarker s t c) := by
  unfold clearMarker; split
  · exact Ext.of_eq rfl rfl
  · exact Ext.refl s

theorem clearMarker_co (s : State) (t : Token) (c : ConnId) : (clearMarker s t c).co = s.co := by
  unfold clearMarker; split <;> rfl

/-- `push` of a connection that belongs under `token` -/
theorem push_inv {s : State} (h : OriginInv s) (token : Token) (c : ConnId) (hc : ConnTok s token c) :
    OriginInv (push s token c) ∧ Ext s (push s token c) ∧ (push s token c).co = s.co := by
  unfold push
  have h0 := clearMarker_inv h token c
  have e0 := clearMarker_ext s token c
  have c0 := clearMarker_co s token c
  have hw : ∀ r ∈ (clearMarker s token c).waiting token, ∃ chk, (clearMarker s token c).co r = some chk ∧ chk.token = token :=
    fun r hr => h0.waiting token r hr
  obtain ⟨h1, e1, c1⟩ := pushLoop_inv token c _ _ h0 (hc.ext e0) hw
  simp only []
  generalize hpl : pushLoop (clearMarker s token c) token c ((clearMarker s token c).waiting token) = pl at h1 e1 c1
  obtain ⟨s1, delivered⟩ := pl
  simp only [] at h1 e1 c1 ⊢
  have e01 : Ext s s1 := e0.trans e1
  have c01 : s1.co = s.co := c1.trans c0
  split
  · exact ⟨h1, e01, c01⟩
  · split
    · refine ⟨?_, e01.trans (Ext.of_eq rfl rfl), c01⟩
      apply h1.setIdle
      intro c' a hm
      simp only [List.mem_cons, Prod.mk.injEq] at hm
      rcases hm with ⟨rfl, _⟩ | hm
      · exact hc.ext e01
      · exact h1.idle token c' a hm
    · split
      · exact ⟨h1, e01, c01⟩
      · exact ⟨h1.congr rfl rfl rfl rfl rfl rfl rfl rfl rfl rfl, e01.trans (Ext.of_eq rfl rfl), c01⟩

end Hd.Pool

namespace Hd.Pool

/-- everything `idlePop` returns or keeps was in the list -/
theorem idlePop_mem (s : State) : ∀ (l : List (ConnId × Nat)),
    (∀ c, (idlePop s l).1 = some c → ∃ a, (c, a) ∈ l) ∧ (∀ x ∈ (idlePop s l).2.1, x ∈ l)
  | [] => by simp [idlePop]
  | (c, a) :: rest => by
    simp only [idlePop]
    split
    · simp
    · split
      · refine ⟨?_, ?_⟩
        · intro c' hc'; simp only [Option.some.injEq] at hc'; subst hc'; exact ⟨a, List.mem_cons_self⟩
        · intro x hx; exact List.mem_cons_of_mem _ hx
      · obtain ⟨h1, h2⟩ := idlePop_mem s rest
        refine ⟨?_, ?_⟩
        · intro c' hc'
          obtain ⟨a', ha'⟩ := h1 c' hc'
          exact ⟨a', List.mem_cons_of_mem _ ha'⟩
        · intro x hx; exact List.mem_cons_of_mem _ (h2 x hx)

theorem noteDropped_inv {s : State} (h : OriginInv s) (l : List ConnId) : OriginInv (noteDropped s l) :=
  h.congr rfl rfl rfl rfl rfl rfl rfl rfl rfl rfl

theorem tokenOf_inv {s : State} (h : OriginInv s) (k : KeyId) :
    OriginInv (tokenOf s k).1 ∧ Ext s (tokenOf s k).1 ∧ (tokenOf s k).1.keys.lookup k = some (tokenOf s k).2 ∧
    (tokenOf s k).1.co = s.co ∧ (tokenOf s k).1.idle = s.idle := by
  obtain ⟨hk, hl, hmono⟩ := C06_tokenOf s k h.keysOk
  have hconns : (tokenOf s k).1.conns = s.conns := by unfold tokenOf; split <;> rfl
  have hnext : (tokenOf s k).1.nextConn = s.nextConn := by unfold tokenOf; split <;> rfl
  have hidle : (tokenOf s k).1.idle = s.idle := by unfold tokenOf; split <;> rfl
  have hco : (tokenOf s k).1.co = s.co := by unfold tokenOf; split <;> rfl
  have hw : (tokenOf s k).1.waiting = s.waiting := by unfold tokenOf; split <;> rfl
  have hch : (tokenOf s k).1.chan = s.chan := by unfold tokenOf; split <;> rfl
  have ht : (tokenOf s k).1.tasks = s.tasks := by unfold tokenOf; split <;> rfl
  have hh : (tokenOf s k).1.held = s.held := by unfold tokenOf; split <;> rfl
  have e : Ext s (tokenOf s k).1 := ⟨hmono, fun c conn hc => ⟨conn, by rw [hconns]; exact hc, rfl⟩⟩
  refine ⟨⟨hk, ?_, ?_, ?_, ?_, ?_, ?_, ?_⟩, e, hl, hco, hidle⟩
  · unfold Fresh; rw [hconns, hnext]; exact h.fresh
  · rw [hidle]; exact h.idle.ext e
  · rw [hco]; exact h.co.ext e
  · rw [hco, hw]; exact h.waiting
  · rw [hco, hch]; exact h.chan.ext e
  · rw [ht]; exact h.tasks.ext e
  · rw [hco, hh]; exact h.held.ext e

theorem issueFound_inv {s : State} (h : OriginInv s) (r : ReqId) (k : KeyId) (mux : Bool) (t : Token) (c : ConnId)
    (hr : s.co r = none) (hk : s.keys.lookup k = some t) (hc : ConnTok s t c) :
    OriginInv (issueFound s r k mux t c) := by
  unfold issueFound
  have h1 : OriginInv (if canShare s c then { s with idle := upd s.idle t ((c, s.now) :: s.idle t) } else s) := by
    split
    · apply h.setIdle
      intro c' a hm
      simp only [List.mem_cons, Prod.mk.injEq] at hm
      rcases hm with ⟨rfl, _⟩ | hm
      · exact hc
      · exact h.idle t c' a hm
    · exact h
  have e1 : Ext s (if canShare s c then { s with idle := upd s.idle t ((c, s.now) :: s.idle t) } else s) := by
    split
    · exact Ext.of_eq rfl rfl
    · exact Ext.refl s
  have c1 : (if canShare s c then { s with idle := upd s.idle t ((c, s.now) :: s.idle t) } else s).co = s.co := by
    split <;> rfl
  generalize (if canShare s c then { s with idle := upd s.idle t ((c, s.now) :: s.idle t) } else s) = s1 at h1 e1 c1
  have h2 : OriginInv { s1 with chan := upd s1.chan r .txGone } := h1.setChan r .txGone (fun p hp => by cases hp)
  have e2 : Ext s { s1 with chan := upd s1.chan r .txGone } := e1.trans (Ext.of_eq rfl rfl)
  exact h2.newCo r _ (by show s1.co r = none; rw [c1]; exact hr) (e2.keys k t hk)
    (fun c' hc' => by simp only [Option.some.injEq] at hc'; subst hc'; exact hc.ext e2)

theorem issueMissing_inv {s : State} (h : OriginInv s) (r : ReqId) (k : KeyId) (mux : Bool) (t : Token)
    (hr : s.co r = none) (hk : s.keys.lookup k = some t) : OriginInv (issueMissing s r k mux t) := by
  unfold issueMissing
  simp only []
  -- the checkout is installed last, so the waiter entry for `r` is justified by it: build in another order
  have key : ∀ (chk : Checkout) (conn : List Token) (att : Nat) (own : Token → Nat), chk.key = k → chk.token = t → chk.conn = none →
      OriginInv { s with waiting := upd s.waiting t (s.waiting t ++ [r]), chan := upd s.chan r .empty,
                         connecting := conn, attempts := att, owner := own, co := upd s.co r (some chk) } := by
    intro chk conn att own hck hct hcc
    have h1 : OriginInv { s with co := upd s.co r (some chk) } :=
      h.newCo r chk hr (by rw [hck, hct]; exact hk) (fun c hc => by rw [hcc] at hc; cases hc)
    have h2 : OriginInv { s with co := upd s.co r (some chk), chan := upd s.chan r .empty } :=
      h1.setChan r .empty (fun p hp => by cases hp)
    have h3 := h2.setWaiting t (s.waiting t ++ [r]) (by
      intro r' hr'
      simp only [List.mem_append, List.mem_singleton] at hr'
      rcases hr' with hr' | rfl
      · obtain ⟨c', hc', ht'⟩ := h.waiting t r' hr'
        by_cases e : r' = r
        · subst e; rw [hr] at hc'; cases hc'
        · exact ⟨c', by simp [upd, e, hc'], ht'⟩
      · exact ⟨chk, by simp, hct⟩)
    exact h3.congr rfl rfl rfl rfl rfl rfl rfl rfl rfl rfl
  split
  · exact key _ _ _ _ rfl rfl rfl
  · split <;> exact key _ _ _ _ rfl rfl rfl

end Hd.Pool

namespace Hd.Pool

theorem issue_inv {s : State} (h : OriginInv s) (r : ReqId) (k : KeyId) (mux : Bool) (hr : s.co r = none) :
    OriginInv (issue s r k mux) := by
  unfold issue
  obtain ⟨h0, e0, hk0, hco0, hidle0⟩ := tokenOf_inv h k
  simp only []
  generalize tokenOf s k = tk at h0 e0 hk0 hco0 hidle0
  obtain ⟨s0, t⟩ := tk
  simp only [] at h0 e0 hk0 hco0 hidle0 ⊢
  obtain ⟨hpop1, hpop2⟩ := idlePop_mem s0 (s0.idle t)
  have h1 : OriginInv { s0 with idle := upd s0.idle t (idlePop s0 (s0.idle t)).2.1 } := by
    apply h0.setIdle
    intro c a hm
    exact h0.idle t c a (hpop2 _ hm)
  have h2 := noteDropped_inv h1 (idlePop s0 (s0.idle t)).2.2
  have hr2 : (noteDropped { s0 with idle := upd s0.idle t (idlePop s0 (s0.idle t)).2.1 } (idlePop s0 (s0.idle t)).2.2).co r = none := by
    show s0.co r = none; rw [hco0]; exact hr
  have hk2 : (noteDropped { s0 with idle := upd s0.idle t (idlePop s0 (s0.idle t)).2.1 } (idlePop s0 (s0.idle t)).2.2).keys.lookup k = some t := hk0
  cases hp : (idlePop s0 (s0.idle t)).1 with
  | none => simp only []; exact issueMissing_inv h2 r k mux t hr2 hk2
  | some c =>
    simp only []
    obtain ⟨a, ha⟩ := hpop1 c hp
    have hc : ConnTok s0 t c := h0.idle t c a ha
    exact issueFound_inv h2 r k mux t c hr2 hk2 (hc.ext (Ext.of_eq rfl rfl))

theorem dropRx_inv {s : State} (h : OriginInv s) (r : ReqId) : OriginInv (dropRx s r) := by
  unfold dropRx
  split
  · rename_i p hp
    have hf := h.chan r p hp
    have h1 : OriginInv { s with chan := upd s.chan r .rxGone } := h.setChan r .rxGone (fun p hp => by cases hp)
    exact dropPooled_inv h1 p (hf.pooledOk)
  · exact h.setChan r .rxGone (fun p hp => by cases hp)
  · exact h

theorem dropRx_ext (s : State) (r : ReqId) : Ext s (dropRx s r) := by
  unfold dropRx
  split
  · exact (Ext.of_eq rfl rfl : Ext s { s with chan := upd s.chan r .rxGone }).trans (dropPooled_ext _ _)
  · exact Ext.of_eq rfl rfl
  · exact Ext.refl s

theorem dropRx_co (s : State) (r : ReqId) : (dropRx s r).co = s.co := by
  unfold dropRx
  split
  · rw [dropPooled_co]
  · rfl
  · rfl

theorem dropSenders_inv : ∀ (l : List ReqId) (s : State), OriginInv s →
    OriginInv (dropSenders s l) ∧ Ext s (dropSenders s l) ∧ (dropSenders s l).co = s.co ∧ (dropSenders s l).waiting = s.waiting
  | [], s, h => ⟨h, Ext.refl s, rfl, rfl⟩
  | r :: rest, s, h => by
    simp only [dropSenders]
    have h1 : OriginInv (match s.chan r with | .empty => { s with chan := upd s.chan r .txGone } | _ => s) := by
      split
      · exact h.setChan r .txGone (fun p hp => by cases hp)
      · exact h
    have e1 : Ext s (match s.chan r with | .empty => { s with chan := upd s.chan r .txGone } | _ => s) := by
      split
      · exact Ext.of_eq rfl rfl
      · exact Ext.refl s
    have c1 : (match s.chan r with | .empty => { s with chan := upd s.chan r .txGone } | _ => s).co = s.co := by
      split <;> rfl
    have w1 : (match s.chan r with | .empty => { s with chan := upd s.chan r .txGone } | _ => s).waiting = s.waiting := by
      split <;> rfl
    obtain ⟨a, b, c, d⟩ := dropSenders_inv rest _ h1
    exact ⟨a, e1.trans b, c.trans c1, d.trans w1⟩

theorem cancelConnection_inv {s : State} (h : OriginInv s) (t : Token) :
    OriginInv (cancelConnection s t) ∧ Ext s (cancelConnection s t) ∧ (cancelConnection s t).co = s.co := by
  unfold cancelConnection
  split
  · simp only []
    have h0 : OriginInv { s with connecting := s.connecting.erase t } := h.congr rfl rfl rfl rfl rfl rfl rfl rfl rfl rfl
    obtain ⟨a, b, c, _⟩ := dropSenders_inv ({ s with connecting := s.connecting.erase t }.waiting t) _ h0
    refine ⟨a.setWaiting t [] (by simp), ?_, c⟩
    exact ((Ext.of_eq rfl rfl : Ext s { s with connecting := s.connecting.erase t }).trans b).trans (Ext.of_eq rfl rfl)
  · exact ⟨h, Ext.refl s, rfl⟩

theorem cancelIfOwner_inv {s : State} (h : OriginInv s) (c : Checkout) :
    OriginInv (cancelIfOwner s c) ∧ Ext s (cancelIfOwner s c) ∧ (cancelIfOwner s c).co = s.co := by
  unfold cancelIfOwner
  split
  · exact cancelConnection_inv h c.token
  · exact ⟨h, Ext.refl s, rfl⟩

theorem returnUnused_inv {s : State} (h : OriginInv s) (c : Checkout)
    (hc : ∀ cid, c.conn = some cid → ConnTok s c.token cid) :
    OriginInv (returnUnused s c) ∧ Ext s (returnUnused s c) ∧ (returnUnused s c).co = s.co := by
  unfold returnUnused
  split
  · rename_i cid hcid
    split
    · exact push_inv h c.token cid (hc cid hcid)
    · split
      · exact ⟨h, Ext.refl s, rfl⟩
      · exact ⟨h.congr rfl rfl rfl rfl rfl rfl rfl rfl rfl rfl, Ext.of_eq rfl rfl, rfl⟩
  · exact ⟨h, Ext.refl s, rfl⟩

end Hd.Pool

namespace Hd.Pool

theorem CoSame.trans {a b c : ReqId → Option Checkout} (h1 : CoSame a b) (h2 : CoSame b c) : CoSame a c := by
  intro r chk hr
  obtain ⟨c1, hc1, t1, k1⟩ := h1 r chk hr
  obtain ⟨c2, hc2, t2, k2⟩ := h2 r c1 hc1
  exact ⟨c2, hc2, t2.trans t1, k2.trans k1⟩

theorem CoSame.of_eq {a b : ReqId → Option Checkout} (h : b = a) : CoSame a b := by
  subst h; exact CoSame.refl _

theorem takeConn_inv {s : State} (h : OriginInv s) (r : ReqId) (c : Checkout) (hco : s.co r = some c) :
    OriginInv (takeConn s r c) ∧ Ext s (takeConn s r c) ∧ CoSame s.co (takeConn s r c).co ∧
      (takeConn s r c).co r = some { c with conn := none } := by
  unfold takeConn
  exact ⟨h.setCo r c _ hco rfl rfl (fun cid hcid => by cases hcid), Ext.of_eq rfl rfl,
    CoSame.update hco rfl rfl, by simp⟩

theorem dropCheckout_inv {s : State} (h : OriginInv s) (r : ReqId) :
    OriginInv (dropCheckout s r) ∧ Ext s (dropCheckout s r) ∧ CoSame s.co (dropCheckout s r).co := by
  unfold dropCheckout
  cases hco : s.co r with
  | none => exact ⟨h, Ext.refl s, CoSame.refl _⟩
  | some c =>
    simp only []
    split
    · exact ⟨h, Ext.refl s, CoSame.refl _⟩
    · obtain ⟨h0, e0, cs0, hr0⟩ := takeConn_inv h r c hco
      obtain ⟨h1, e1, c1⟩ := returnUnused_inv h0 c (fun cid hcid => (h.co.2 r c cid hco hcid).ext e0)
      generalize takeConn s r c = s0 at h0 e0 cs0 hr0 h1 e1 c1
      split
      · have h2 := spawn_inv h1 (.delayed r) (fun _ _ _ e => by cases e)
        have e2 := spawn_ext (returnUnused s0 c) (.delayed r)
        have c2 := spawn_co (returnUnused s0 c) (.delayed r)
        have h3 := dropRx_inv h2 r
        have e3 := dropRx_ext (spawn (returnUnused s0 c) (.delayed r)) r
        have c3 := dropRx_co (spawn (returnUnused s0 c) (.delayed r)) r
        have hr3 : (dropRx (spawn (returnUnused s0 c) (.delayed r)) r).co r = some { c with conn := none } := by
          rw [c3, c2, c1]; exact hr0
        refine ⟨h3.setCo r _ _ hr3 rfl rfl (fun cid hcid => by cases hcid), ?_, ?_⟩
        · exact (((e0.trans e1).trans e2).trans e3).trans (Ext.of_eq rfl rfl)
        · have : CoSame s0.co (dropRx (spawn (returnUnused s0 c) (.delayed r)) r).co :=
            CoSame.of_eq (by rw [c3, c2, c1])
          exact (cs0.trans this).trans (CoSame.update hr3 rfl rfl)
      · obtain ⟨h2, e2, c2⟩ := cancelIfOwner_inv h1 c
        have h3 := dropRx_inv h2 r
        have e3 := dropRx_ext (cancelIfOwner (returnUnused s0 c) c) r
        have c3 := dropRx_co (cancelIfOwner (returnUnused s0 c) c) r
        have hr3 : (dropRx (cancelIfOwner (returnUnused s0 c) c) r).co r = some { c with conn := none } := by
          rw [c3, c2, c1]; exact hr0
        refine ⟨h3.setCo r _ _ hr3 rfl rfl (fun cid hcid => by cases hcid), ?_, ?_⟩
        · exact (((e0.trans e1).trans e2).trans e3).trans (Ext.of_eq rfl rfl)
        · have : CoSame s0.co (dropRx (cancelIfOwner (returnUnused s0 c) c) r).co :=
            CoSame.of_eq (by rw [c3, c2, c1])
          exact (cs0.trans this).trans (CoSame.update hr3 rfl rfl)

theorem startDial_inv {s : State} (h : OriginInv s) (r : ReqId) : OriginInv (startDial s r) := by
  unfold startDial; split
  · exact h
  · exact h.congr rfl rfl rfl rfl rfl rfl rfl rfl rfl rfl

theorem startDial_ext (s : State) (r : ReqId) : Ext s (startDial s r) := by
  unfold startDial; split
  · exact Ext.refl s
  · exact Ext.of_eq rfl rfl

theorem startDial_co (s : State) (r : ReqId) : (startDial s r).co = s.co := by
  unfold startDial; split <;> rfl

/-- a new connection gets a fresh id and the checkout's origin -/
theorem newConn_inv {s : State} (h : OriginInv s) (c : Checkout) (alpn : Negotiated)
    (hk : s.keys.lookup c.key = some c.token) :
    OriginInv (newConn s c alpn).1 ∧ Ext s (newConn s c alpn).1 ∧ (newConn s c alpn).1.co = s.co ∧
      ConnTok (newConn s c alpn).1 c.token (newConn s c alpn).2 := by
  unfold newConn
  simp only []
  generalize connKind c.mux alpn = kd
  have hfresh : s.conns s.nextConn = none := by
    cases hc : s.conns s.nextConn with
    | none => rfl
    | some conn => exact absurd (h.fresh _ conn hc) (Nat.lt_irrefl _)
  have e : Ext s { s with nextConn := s.nextConn + 1, conns := upd s.conns s.nextConn (some ⟨c.key, kd, true, false⟩) } := by
    refine ⟨fun _ _ hh => hh, ?_⟩
    intro x conn hx
    by_cases ex : x = s.nextConn
    · subst ex; rw [hfresh] at hx; cases hx
    · exact ⟨conn, by simp [upd, ex, hx], rfl⟩
  refine ⟨⟨h.keysOk, ?_, h.idle.ext e, h.co.ext e, h.waiting, h.chan.ext e, h.tasks.ext e, h.held.ext e⟩, e, by first | rfl | trivial, ?_⟩
  · intro x conn hx
    by_cases ex : x = s.nextConn
    · subst ex; exact Nat.lt_succ_self _
    · simp only [upd, ex, if_false] at hx
      exact Nat.lt_succ_of_lt (h.fresh x conn hx)
  · exact ⟨c.key, ⟨c.key, kd, true, false⟩, hk, by simp, rfl⟩

theorem registerConnected_inv {s : State} (h : OriginInv s) (c : Checkout) (cid : ConnId) (hc : ConnTok s c.token cid) :
    OriginInv (registerConnected s c cid).1 ∧ Ext s (registerConnected s c cid).1 ∧
      (registerConnected s c cid).1.co = s.co ∧
      (registerConnected s c cid).2.conn = cid ∧
      ((registerConnected s c cid).2.token = 0 ∨ (registerConnected s c cid).2.token = c.token) := by
  unfold registerConnected
  split
  · obtain ⟨a, b, d⟩ := push_inv h c.token cid hc
    exact ⟨a, b, d, rfl, Or.inl rfl⟩
  · exact ⟨h, Ext.refl s, rfl, rfl, Or.inr rfl⟩

theorem checkedOut_spec (s : State) (c : Checkout) (cid : ConnId) :
    (checkedOut s c cid).conn = cid ∧ ((checkedOut s c cid).token = 0 ∨ (checkedOut s c cid).token = c.token) := by
  unfold checkedOut; split
  · exact ⟨rfl, Or.inl rfl⟩
  · exact ⟨rfl, Or.inr rfl⟩

end Hd.Pool

namespace Hd.Pool

/-- what a poll hands out belongs to the checkout's origin -/
def HandOk (s : State) (c : Checkout) (p : Pooled) : Prop :=
  ConnTok s c.token p.conn ∧ (p.token = 0 ∨ p.token = c.token)

theorem pollWaiter_inv {s : State} (h : OriginInv s) (r : ReqId) (c : Checkout) (hco : s.co r = some c) :
    OriginInv (pollWaiter s r c).1 ∧ Ext s (pollWaiter s r c).1 ∧ (pollWaiter s r c).1.co = s.co ∧
    (pollWaiter s r c).2.1.key = c.key ∧ (pollWaiter s r c).2.1.token = c.token ∧
    (pollWaiter s r c).2.1.conn = c.conn ∧ (pollWaiter s r c).2.1.inner = c.inner ∧
    (∀ p, (pollWaiter s r c).2.2 = some (some p) → HandOk (pollWaiter s r c).1 c p) := by
  have hand : ∀ p, s.chan r = .full p → HandOk { s with chan := upd s.chan r .rxGone } c p := by
    intro p hp
    obtain ⟨chk, h1, h2, h3⟩ := h.chan r p hp
    rw [hco] at h1; cases h1
    exact ⟨h2.ext (Ext.of_eq rfl rfl), h3⟩
  unfold pollWaiter
  cases c.waiter with
  | idle =>
    simp only []
    split
    · rename_i p hp
      refine ⟨h.setChan r .rxGone (fun p hp => by cases hp), Ext.of_eq rfl rfl, rfl, rfl, rfl, rfl, rfl, ?_⟩
      intro p' hp'; simp only [Option.some.injEq] at hp'; subst hp'; exact hand p hp
    · exact ⟨h, Ext.refl s, rfl, rfl, rfl, rfl, rfl, fun p hp => by simp at hp⟩
    · exact ⟨h, Ext.refl s, rfl, rfl, rfl, rfl, rfl, fun p hp => by simp at hp⟩
  | connecting =>
    simp only []
    split
    · rename_i p hp
      refine ⟨h.setChan r .rxGone (fun p hp => by cases hp), Ext.of_eq rfl rfl, rfl, rfl, rfl, rfl, rfl, ?_⟩
      intro p' hp'; simp only [Option.some.injEq] at hp'; subst hp'; exact hand p hp
    · exact ⟨h, Ext.refl s, rfl, rfl, rfl, rfl, rfl, fun p hp => by simp at hp⟩
    · exact ⟨h, Ext.refl s, rfl, rfl, rfl, rfl, rfl, fun p hp => by simp at hp⟩
  | noPool => exact ⟨h, Ext.refl s, rfl, rfl, rfl, rfl, rfl, fun p hp => by simp at hp⟩

end Hd.Pool

namespace Hd.Pool

theorem pollCheckout_inv {s : State} (h : OriginInv s) (r : ReqId) (c : Checkout) (hco : s.co r = some c) :
    OriginInv (pollCheckout s r c).1 ∧ Ext s (pollCheckout s r c).1 ∧ (pollCheckout s r c).1.co = s.co ∧
    (pollCheckout s r c).2.1.key = c.key ∧ (pollCheckout s r c).2.1.token = c.token ∧
    (∀ cid, (pollCheckout s r c).2.1.conn = some cid → c.conn = some cid) ∧
    (∀ p, (pollCheckout s r c).2.2 = .got p → HandOk (pollCheckout s r c).1 c p) := by
  obtain ⟨h1, e1, c1, k1, t1, cn1, in1, hand1⟩ := pollWaiter_inv h r c hco
  unfold pollCheckout
  generalize pollWaiter s r c = pw at h1 e1 c1 k1 t1 cn1 in1 hand1
  obtain ⟨s1, cw, w⟩ := pw
  simp only [] at h1 e1 c1 k1 t1 cn1 in1 hand1 ⊢
  have hco1 : s1.co r = some c := by rw [c1]; exact hco
  cases w with
  | none => exact ⟨h1, e1, c1, k1, t1, fun cid hc => (by rw [cn1] at hc; exact hc), fun p hp => (by cases hp)⟩
  | some w' =>
    cases w' with
    | some p =>
      refine ⟨h1, e1, c1, k1, t1, fun cid hc => (by rw [cn1] at hc; exact hc), ?_⟩
      intro p' hp'
      simp only [PollRes.got.injEq] at hp'
      subst hp'
      exact hand1 p rfl
    | none =>
      simp only []
      cases hin : cw.inner with
      | waiting => exact ⟨h1, e1, c1, k1, t1, fun cid hc => (by rw [cn1] at hc; exact hc), fun p hp => (by cases hp)⟩
      | connected =>
        simp only []
        cases hcn : cw.conn with
        | none =>
          simp only []
          exact ⟨h1, e1, c1, k1, t1, fun cid hc => (by rw [hcn] at hc; cases hc), fun p hp => (by cases hp)⟩
        | some cid =>
          simp only []
          have hcid : ConnTok s1 c.token cid := by
            have : c.conn = some cid := by rw [← cn1]; exact hcn
            exact (h.co.2 r c cid hco this).ext e1
          refine ⟨dropRx_inv h1 r, e1.trans (dropRx_ext s1 r), (dropRx_co s1 r).trans c1, k1, t1,
            fun cid' hc => (by cases hc), ?_⟩
          intro p hp
          simp only [PollRes.got.injEq] at hp
          subst hp
          unfold HandOk checkedOut
          split
          · exact ⟨hcid.ext (dropRx_ext s1 r), Or.inl rfl⟩
          · exact ⟨hcid.ext (dropRx_ext s1 r), Or.inr t1⟩
      | connecting | delayDrop | delayed =>
        simp only []
        have h2 := startDial_inv h1 r
        have e2 := startDial_ext s1 r
        have c2 := startDial_co s1 r
        cases hout : (s1.dial r).outcome with
        | none =>
          exact ⟨h2, e1.trans e2, c2.trans c1, k1, t1, fun cid hc => (by rw [cn1] at hc; exact hc), fun p hp => (by cases hp)⟩
        | some out =>
          simp only []
          have h3 := dropRx_inv h2 r
          have e3 := dropRx_ext (startDial s1 r) r
          have c3 := dropRx_co (startDial s1 r) r
          have e13 : Ext s (dropRx (startDial s1 r) r) := (e1.trans e2).trans e3
          have c13 : (dropRx (startDial s1 r) r).co = s.co := (c3.trans c2).trans c1
          cases out with
          | failConnect =>
            exact ⟨h3, e13, c13, k1, t1, fun cid hc => (by rw [cn1] at hc; exact hc), fun p hp => (by cases hp)⟩
          | failHandshake =>
            exact ⟨h3, e13, c13, k1, t1, fun cid hc => (by rw [cn1] at hc; exact hc), fun p hp => (by cases hp)⟩
          | ok alpn =>
            simp only []
            have hk3 : (dropRx (startDial s1 r) r).keys.lookup ({ cw with inner := .connected, waiter := .noPool } : Checkout).key
                = some ({ cw with inner := .connected, waiter := .noPool } : Checkout).token := by
              show (dropRx (startDial s1 r) r).keys.lookup cw.key = some cw.token
              rw [k1, t1]
              exact e13.keys _ _ (h.co.1 r c hco)
            obtain ⟨h4, e4, c4, hct⟩ := newConn_inv h3 { cw with inner := .connected, waiter := .noPool } alpn hk3
            generalize newConn (dropRx (startDial s1 r) r) { cw with inner := .connected, waiter := .noPool } alpn = nc at h4 e4 c4 hct
            obtain ⟨s4, cid⟩ := nc
            simp only [] at h4 e4 c4 hct ⊢
            obtain ⟨h5, e5, c5, pc, pt⟩ := registerConnected_inv h4 { cw with inner := .connected, waiter := .noPool } cid hct
            generalize registerConnected s4 { cw with inner := .connected, waiter := .noPool } cid = rc at h5 e5 c5 pc pt
            obtain ⟨s5, p⟩ := rc
            simp only [] at h5 e5 c5 pc pt ⊢
            refine ⟨h5, (e13.trans e4).trans e5, (c5.trans c4).trans c13, k1, t1,
              fun cid' hc => (by rw [cn1] at hc; exact hc), ?_⟩
            intro p' hp'
            simp only [PollRes.got.injEq] at hp'
            subst hp'
            have ht' : ({ cw with inner := .connected, waiter := .noPool } : Checkout).token = c.token := t1
            refine ⟨?_, ?_⟩
            · rw [pc, ← ht']; exact hct.ext e5
            · rcases pt with pt | pt
              · exact Or.inl pt
              · exact Or.inr (pt.trans ht')

end Hd.Pool

namespace Hd.Pool

theorem setConn_ext (s : State) (c : ConnId) (f : Conn → Conn) (hf : ∀ k, (f k).origin = k.origin) :
    Ext s (setConn s c f) := by
  unfold setConn
  split
  · rename_i k hk
    refine ⟨fun _ _ h => h, ?_⟩
    intro x conn hx
    by_cases e : x = c
    · subst e; rw [hk] at hx; cases hx
      exact ⟨f k, by simp, hf k⟩
    · exact ⟨conn, by simp [upd, e, hx], rfl⟩
  · exact Ext.refl s

theorem setConn_inv {s : State} (h : OriginInv s) (c : ConnId) (f : Conn → Conn) (hf : ∀ k, (f k).origin = k.origin) :
    OriginInv (setConn s c f) := by
  have e := setConn_ext s c f hf
  unfold setConn at e ⊢
  split
  · rename_i k hk
    simp only [hk] at e
    refine ⟨h.keysOk, ?_, h.idle.ext e, h.co.ext e, h.waiting, h.chan.ext e, h.tasks.ext e, h.held.ext e⟩
    intro x conn hx
    by_cases ex : x = c
    · subst ex; exact h.fresh x k hk
    · simp only [upd, ex, if_false] at hx; exact h.fresh x conn hx
  · exact h

theorem setConn_co (s : State) (c : ConnId) (f : Conn → Conn) : (setConn s c f).co = s.co := by
  unfold setConn; split <;> rfl

theorem removeTask_inv {s : State} (h : OriginInv s) (i : Nat) : OriginInv (removeTask s i) := by
  unfold removeTask
  have : TasksOk s (s.tasks.filter (·.1 != i)) := fun j c t hp hm => h.tasks j c t hp (List.mem_filter.mp hm).1
  exact ⟨h.keysOk, h.fresh, h.idle, h.co, h.waiting, h.chan, this, h.held⟩

theorem taskOf_mem {s : State} {i : Nat} {t : Task} (h : taskOf s i = some t) : ∃ j, (j, t) ∈ s.tasks := by
  unfold taskOf at h
  cases hf : s.tasks.find? (·.1 == i) with
  | none => simp [hf] at h
  | some x =>
    simp only [hf, Option.map_some, Option.some.injEq] at h
    exact ⟨x.1, by rw [← h]; exact List.mem_of_find?_eq_some hf⟩

theorem runWhenReady_inv {s : State} (h : OriginInv s) (i : Nat) (c : ConnId) (t : Token) (hp : Bool)
    (ht : t = 0 ∨ ConnTok s t c) : OriginInv (runWhenReady s i c t hp) := by
  unfold runWhenReady
  split
  · exact removeTask_inv h i
  · split
    · exact (removeTask_inv h i).congr rfl rfl rfl rfl rfl rfl rfl rfl rfl rfl
    · split
      · exact h
      · simp only []
        split
        · rename_i hcond
          simp only [Bool.and_eq_true, bne_iff_ne, ne_eq] at hcond
          have hct : ConnTok (removeTask s i) t c := by
            rcases ht with ht | ht
            · exact absurd ht hcond.1
            · exact ht.ext (Ext.of_eq rfl rfl)
          exact (push_inv (removeTask_inv h i) t c hct).1
        · exact (removeTask_inv h i).congr rfl rfl rfl rfl rfl rfl rfl rfl rfl rfl

/-- the tail of a finished delayed checkout: task removed, marker cancelled if owned, marker flag cleared -/
theorem delayedTail_inv {s2 : State} (h2 : OriginInv s2) (i : Nat) (r : ReqId) (c' : Checkout) (hr : s2.co r = some c')
    (hcn : ∀ cid, c'.conn = some cid → ConnTok s2 c'.token cid) :
    OriginInv { (cancelIfOwner (removeTask s2 i) c') with
                co := upd (cancelIfOwner (removeTask s2 i) c').co r (some { c' with marker := false }) } ∧
    Ext s2 { (cancelIfOwner (removeTask s2 i) c') with
                co := upd (cancelIfOwner (removeTask s2 i) c').co r (some { c' with marker := false }) } := by
  have h3 := removeTask_inv h2 i
  have e3 : Ext s2 (removeTask s2 i) := Ext.of_eq rfl rfl
  obtain ⟨h4, e4, c4⟩ := cancelIfOwner_inv h3 c'
  have e24 : Ext s2 (cancelIfOwner (removeTask s2 i) c') := e3.trans e4
  have hr4 : (cancelIfOwner (removeTask s2 i) c').co r = some c' := by rw [c4]; exact hr
  refine ⟨h4.setCo r c' { c' with marker := false } hr4 rfl rfl (fun cid hc => (hcn cid hc).ext e24), ?_⟩
  exact e24.trans (Ext.of_eq rfl rfl)

theorem HandOk.pooledOk {s : State} {c : Checkout} {p : Pooled} (h : HandOk s c p) : PooledOk s p := by
  obtain ⟨h1, h2⟩ := h
  rcases h2 with h2 | h2
  · exact Or.inl h2
  · exact Or.inr (by rw [h2]; exact h1)

theorem PooledOk.ext {s s' : State} {p : Pooled} (e : Ext s s') (h : PooledOk s p) : PooledOk s' p :=
  h.imp id (fun x => x.ext e)

theorem runDelayed_inv {s : State} (h : OriginInv s) (i : Nat) (r : ReqId) : OriginInv (runDelayed s i r) := by
  unfold runDelayed
  cases hco : s.co r with
  | none => exact removeTask_inv h i
  | some c =>
    simp only []
    obtain ⟨h1, e1, c1, k1, t1, cn1, hand⟩ := pollCheckout_inv h r c hco
    generalize pollCheckout s r c = res at h1 e1 c1 k1 t1 cn1 hand
    obtain ⟨s1, c', pr⟩ := res
    simp only [] at h1 e1 c1 k1 t1 cn1 hand ⊢
    have hco1 : s1.co r = some c := by rw [c1]; exact hco
    have hcn : ∀ cid, c'.conn = some cid → ConnTok s1 c'.token cid := by
      intro cid hc
      rw [t1]
      exact (h.co.2 r c cid hco (cn1 cid hc)).ext e1
    have h2 : OriginInv { s1 with co := upd s1.co r (some c') } := h1.setCo r c c' hco1 t1 k1 hcn
    have e2 : Ext s1 { s1 with co := upd s1.co r (some c') } := Ext.of_eq rfl rfl
    have hr2 : ({ s1 with co := upd s1.co r (some c') } : State).co r = some c' := by simp
    have hcn2 : ∀ cid, c'.conn = some cid → ConnTok { s1 with co := upd s1.co r (some c') } c'.token cid :=
      fun cid hc => (hcn cid hc).ext e2
    obtain ⟨h5, e5⟩ := delayedTail_inv h2 i r c' hr2 hcn2
    cases pr with
    | pending => exact h2
    | got p =>
      simp only []
      exact dropPooled_inv h5 p (((hand p rfl).pooledOk.ext e2).ext e5)
    | err k => exact h5
    | panic => exact h5

end Hd.Pool

namespace Hd.Pool

theorem runTask_inv {s : State} (h : OriginInv s) (i : Nat) : OriginInv (runTask s i) := by
  unfold runTask
  cases ht : taskOf s i with
  | none => exact h
  | some t =>
    cases t with
    | whenReady c tk hp =>
      obtain ⟨j, hj⟩ := taskOf_mem ht
      exact runWhenReady_inv h i c tk hp (h.tasks j c tk hp hj)
    | delayed r => exact runDelayed_inv h i r

theorem runAll_inv : ∀ (fuel : Nat) (s : State), OriginInv s → OriginInv (runAll fuel s)
  | 0, _, h => h
  | fuel + 1, s, h => by
    simp only [runAll]
    split
    · exact h
    · rename_i i q hq
      have hq' : OriginInv { s with runq := q } := h.congr rfl rfl rfl rfl rfl rfl rfl rfl rfl rfl
      exact runAll_inv fuel _ (runTask_inv hq' i)

theorem abortTask_inv {s : State} (h : OriginInv s) (i : Nat) : OriginInv (abortTask s i) := by
  unfold abortTask
  cases ht : taskOf s i with
  | none => exact h
  | some t =>
    cases t with
    | whenReady c tk hp => exact (removeTask_inv h i).congr rfl rfl rfl rfl rfl rfl rfl rfl rfl rfl
    | delayed r =>
      simp only []
      cases hco : s.co r with
      | none => exact removeTask_inv h i
      | some c => exact (delayedTail_inv h i r c hco (fun cid hc => h.co.2 r c cid hco hc)).1

theorem abortAll_inv : ∀ (fuel : Nat) (s : State), OriginInv s → OriginInv (abortAll fuel s)
  | 0, _, h => h
  | fuel + 1, s, h => by
    simp only [abortAll]
    split
    · exact h.congr rfl rfl rfl rfl rfl rfl rfl rfl rfl rfl
    · exact abortAll_inv fuel _ (abortTask_inv h _)

theorem wakeConn_inv {s : State} (h : OriginInv s) (c : ConnId) : OriginInv (wakeConn s c) :=
  h.congr rfl rfl rfl rfl rfl rfl rfl rfl rfl rfl

theorem wakeDial_inv {s : State} (h : OriginInv s) (r : ReqId) : OriginInv (wakeDial s r) :=
  h.congr rfl rfl rfl rfl rfl rfl rfl rfl rfl rfl

/-- the invariant is kept by every operation -/
theorem step_originInv (s : State) (op : Op) (h : OriginInv s) : OriginInv (step s op).1 := by
  cases op with
  | issue r k mux =>
    simp only [step]
    cases hco : s.co r with
    | some _ => exact h
    | none => exact issue_inv h r k mux hco
  | poll r =>
    simp only [step]
    cases hco : s.co r with
    | none => exact h
    | some c =>
      simp only []
      split
      · exact h
      · obtain ⟨h1, e1, c1, k1, t1, cn1, hand⟩ := pollCheckout_inv h r c hco
        generalize pollCheckout s r c = res at h1 e1 c1 k1 t1 cn1 hand
        obtain ⟨s1, c', pr⟩ := res
        simp only [] at h1 e1 c1 k1 t1 cn1 hand ⊢
        have hco1 : s1.co r = some c := by rw [c1]; exact hco
        have hcn : ∀ cid, c'.conn = some cid → ConnTok s1 c'.token cid := by
          intro cid hc
          rw [t1]
          exact (h.co.2 r c cid hco (cn1 cid hc)).ext e1
        have h2 : OriginInv { s1 with co := upd s1.co r (some c') } := h1.setCo r c c' hco1 t1 k1 hcn
        have e2 : Ext s1 { s1 with co := upd s1.co r (some c') } := Ext.of_eq rfl rfl
        cases pr with
        | pending => exact h2
        | err k => exact (dropCheckout_inv h2 r).1
        | panic => exact (dropCheckout_inv h2 r).1
        | got p =>
          simp only []
          have hp := hand p rfl
          have h3 : OriginInv { s1 with co := upd s1.co r (some c'), held := upd s1.held r (some p) } := by
            apply h2.setHeld r (some p)
            intro p' hp'
            simp only [Option.some.injEq] at hp'
            subst hp'
            refine ⟨c', by simp, ?_, ?_⟩
            · rw [t1]; exact hp.1.ext e2
            · rw [t1]; exact hp.2
          have h4 : OriginInv (if canShare { s1 with co := upd s1.co r (some c'), held := upd s1.held r (some p) } p.conn
              then { s1 with co := upd s1.co r (some c'), held := upd s1.held r (some p) }
              else setConn { s1 with co := upd s1.co r (some c'), held := upd s1.held r (some p) } p.conn (fun k => { k with busy := true })) := by
            split
            · exact h3
            · exact setConn_inv h3 _ _ (fun _ => rfl)
          exact (dropCheckout_inv h4 r).1
  | cancel r =>
    simp only [step]
    cases hh : s.held r with
    | some p =>
      simp only []
      have hf := h.held r p hh
      have h1 : OriginInv { s with held := upd s.held r none } := h.setHeld r none (fun p hp => by cases hp)
      exact dropPooled_inv h1 p (hf.pooledOk.ext (Ext.of_eq rfl rfl))
    | none =>
      simp only []
      cases hco : s.co r with
      | none => exact h
      | some c =>
        simp only []
        split
        · exact (dropCheckout_inv h r).1
        · exact h
  | cancelOff r =>
    simp only [step]
    cases hh : s.held r with
    | some p =>
      simp only []
      have hf := h.held r p hh
      have h1 : OriginInv { s with held := upd s.held r none } := h.setHeld r none (fun p hp => by cases hp)
      exact abortTask_inv (dropPooled_inv h1 p (hf.pooledOk.ext (Ext.of_eq rfl rfl))) _
    | none => exact h
  | dialDone r o =>
    simp only [step]
    split
    · refine wakeDial_inv (s := _) ?_ r
      exact h.congr rfl rfl rfl rfl rfl rfl rfl rfl rfl rfl
    · exact h
  | finish r =>
    simp only [step]
    cases hh : s.held r with
    | some p =>
      simp only []
      have hf := h.held r p hh
      have h1 : OriginInv { s with held := upd s.held r none } := h.setHeld r none (fun p hp => by cases hp)
      exact dropPooled_inv h1 p (hf.pooledOk.ext (Ext.of_eq rfl rfl))
    | none => exact h
  | connReady c =>
    simp only [step]
    split
    · exact wakeConn_inv (setConn_inv h c (fun k => { k with busy := false }) (fun _ => rfl)) c
    · exact h
  | connClose c =>
    simp only [step]
    split
    · exact wakeConn_inv (setConn_inv h c (fun k => { k with isOpen := false }) (fun _ => rfl)) c
    · exact h
  | connFail c =>
    simp only [step]
    split
    · split
      · exact wakeConn_inv (setConn_inv h c (fun k => { k with isOpen := false }) (fun _ => rfl)) c
      · exact h
    · exact h
  | run => exact runAll_inv _ s h
  | tick ms => exact h.congr rfl rfl rfl rfl rfl rfl rfl rfl rfl rfl
  | mark => exact h
  | shutdown => exact abortAll_inv _ s h

theorem run_originInv : ∀ (ops : List Op) (s : State), OriginInv s → OriginInv (run s ops).1
  | [], _, h => h
  | op :: ops, s, h => by
    simp only [run]
    exact run_originInv ops _ (step_originInv s op h)

end Hd.Pool

namespace Hd.Pool

/-! ### a checkout keeps the key (origin) and token it was created with -/

theorem issueFound_co (s : State) (r : ReqId) (k : KeyId) (mux : Bool) (t : Token) (c : ConnId) :
    ∃ chk, (issueFound s r k mux t c).co = upd s.co r (some chk) ∧ chk.key = k := by
  unfold issueFound
  split <;> exact ⟨_, rfl, rfl⟩

theorem issueMissing_co (s : State) (r : ReqId) (k : KeyId) (mux : Bool) (t : Token) :
    ∃ chk, (issueMissing s r k mux t).co = upd s.co r (some chk) ∧ chk.key = k := by
  unfold issueMissing
  simp only []
  split
  · exact ⟨_, rfl, rfl⟩
  · split <;> exact ⟨_, rfl, rfl⟩

theorem issue_co (s : State) (r : ReqId) (k : KeyId) (mux : Bool) :
    ∃ chk, (issue s r k mux).co = upd s.co r (some chk) ∧ chk.key = k := by
  unfold issue
  simp only []
  have h0 : (tokenOf s k).1.co = s.co := by unfold tokenOf; split <;> rfl
  split
  · obtain ⟨chk, h1, h2⟩ := issueFound_co (noteDropped { (tokenOf s k).1 with idle := upd (tokenOf s k).1.idle (tokenOf s k).2 (idlePop (tokenOf s k).1 ((tokenOf s k).1.idle (tokenOf s k).2)).2.1 } (idlePop (tokenOf s k).1 ((tokenOf s k).1.idle (tokenOf s k).2)).2.2) r k mux (tokenOf s k).2 ‹_›
    exact ⟨chk, by rw [h1]; show upd (tokenOf s k).1.co r (some chk) = _; rw [h0], h2⟩
  · obtain ⟨chk, h1, h2⟩ := issueMissing_co (noteDropped { (tokenOf s k).1 with idle := upd (tokenOf s k).1.idle (tokenOf s k).2 (idlePop (tokenOf s k).1 ((tokenOf s k).1.idle (tokenOf s k).2)).2.1 } (idlePop (tokenOf s k).1 ((tokenOf s k).1.idle (tokenOf s k).2)).2.2) r k mux (tokenOf s k).2
    exact ⟨chk, by rw [h1]; show upd (tokenOf s k).1.co r (some chk) = _; rw [h0], h2⟩

theorem runWhenReady_co {s : State} (h : OriginInv s) (i : Nat) (c : ConnId) (t : Token) (hp : Bool)
    (ht : t = 0 ∨ ConnTok s t c) : (runWhenReady s i c t hp).co = s.co := by
  unfold runWhenReady
  split
  · rfl
  · split
    · rfl
    · split
      · rfl
      · simp only []
        split
        · rename_i hcond
          simp only [Bool.and_eq_true, bne_iff_ne, ne_eq] at hcond
          have hct : ConnTok (removeTask s i) t c := by
            rcases ht with ht | ht
            · exact absurd ht hcond.1
            · exact ht.ext (Ext.of_eq rfl rfl)
          exact (push_inv (removeTask_inv h i) t c hct).2.2
        · rfl

theorem runDelayed_coSame {s : State} (h : OriginInv s) (i : Nat) (r : ReqId) : CoSame s.co (runDelayed s i r).co := by
  unfold runDelayed
  cases hco : s.co r with
  | none => exact CoSame.refl _
  | some c =>
    simp only []
    obtain ⟨h1, e1, c1, k1, t1, cn1, hand⟩ := pollCheckout_inv h r c hco
    generalize pollCheckout s r c = res at h1 e1 c1 k1 t1 cn1 hand
    obtain ⟨s1, c', pr⟩ := res
    simp only [] at h1 e1 c1 k1 t1 cn1 hand ⊢
    have hco1 : s1.co r = some c := by rw [c1]; exact hco
    have step1 : CoSame s.co (upd s1.co r (some c')) := (CoSame.of_eq c1).trans (CoSame.update hco1 t1 k1)
    have hcn : ∀ cid, c'.conn = some cid → ConnTok s1 c'.token cid := by
      intro cid hc; rw [t1]; exact (h.co.2 r c cid hco (cn1 cid hc)).ext e1
    have h2 : OriginInv { s1 with co := upd s1.co r (some c') } := h1.setCo r c c' hco1 t1 k1 hcn
    have tail : CoSame s.co (upd (cancelIfOwner (removeTask { s1 with co := upd s1.co r (some c') } i) c').co r (some { c' with marker := false })) := by
      obtain ⟨_, _, c4⟩ := cancelIfOwner_inv (removeTask_inv h2 i) c'
      have hr4 : (cancelIfOwner (removeTask { s1 with co := upd s1.co r (some c') } i) c').co r = some c' := by
        rw [c4]; show upd s1.co r (some c') r = some c'; simp
      exact (step1.trans (CoSame.of_eq c4)).trans (CoSame.update hr4 rfl rfl)
    cases pr with
    | pending => exact step1
    | got p => simp only []; rw [dropPooled_co]; exact tail
    | err k => exact tail
    | panic => exact tail

theorem runTask_coSame {s : State} (h : OriginInv s) (i : Nat) : CoSame s.co (runTask s i).co := by
  unfold runTask
  cases ht : taskOf s i with
  | none => exact CoSame.refl _
  | some t =>
    cases t with
    | whenReady c tk hp =>
      obtain ⟨j, hj⟩ := taskOf_mem ht
      exact CoSame.of_eq (runWhenReady_co h i c tk hp (h.tasks j c tk hp hj))
    | delayed r => exact runDelayed_coSame h i r

theorem runAll_coSame : ∀ (fuel : Nat) (s : State), OriginInv s → CoSame s.co (runAll fuel s).co
  | 0, _, _ => CoSame.refl _
  | fuel + 1, s, h => by
    simp only [runAll]
    split
    · exact CoSame.refl _
    · rename_i i q hq
      have hq' : OriginInv { s with runq := q } := h.congr rfl rfl rfl rfl rfl rfl rfl rfl rfl rfl
      exact (runTask_coSame hq' i).trans (runAll_coSame fuel _ (runTask_inv hq' i))

theorem abortTask_coSame {s : State} (h : OriginInv s) (i : Nat) : CoSame s.co (abortTask s i).co := by
  unfold abortTask
  cases ht : taskOf s i with
  | none => exact CoSame.refl _
  | some t =>
    cases t with
    | whenReady c tk hp => exact CoSame.refl _
    | delayed r =>
      simp only []
      cases hco : s.co r with
      | none => exact CoSame.refl _
      | some c =>
        simp only []
        have c4 : (cancelIfOwner (removeTask s i) c).co = s.co := (cancelIfOwner_inv (removeTask_inv h i) c).2.2
        rw [c4]
        exact CoSame.update hco rfl rfl

theorem abortAll_coSame : ∀ (fuel : Nat) (s : State), OriginInv s → CoSame s.co (abortAll fuel s).co
  | 0, _, _ => CoSame.refl _
  | fuel + 1, s, h => by
    simp only [abortAll]
    split
    · exact CoSame.refl _
    · exact (abortTask_coSame h _).trans (abortAll_coSame fuel _ (abortTask_inv h _))

theorem step_coSame (s : State) (op : Op) (h : OriginInv s) : CoSame s.co (step s op).1.co := by
  cases op with
  | issue r k mux =>
    simp only [step]
    cases hco : s.co r with
    | some _ => exact CoSame.refl _
    | none =>
      obtain ⟨chk, h1, _⟩ := issue_co s r k mux
      simp only []
      rw [h1]
      exact CoSame.update_new hco
  | poll r =>
    simp only [step]
    cases hco : s.co r with
    | none => exact CoSame.refl _
    | some c =>
      simp only []
      split
      · exact CoSame.refl _
      · obtain ⟨h1, e1, c1, k1, t1, cn1, hand⟩ := pollCheckout_inv h r c hco
        generalize pollCheckout s r c = res at h1 e1 c1 k1 t1 cn1 hand
        obtain ⟨s1, c', pr⟩ := res
        simp only [] at h1 e1 c1 k1 t1 cn1 hand ⊢
        have hco1 : s1.co r = some c := by rw [c1]; exact hco
        have step1 : CoSame s.co (upd s1.co r (some c')) := (CoSame.of_eq c1).trans (CoSame.update hco1 t1 k1)
        have hcn : ∀ cid, c'.conn = some cid → ConnTok s1 c'.token cid := by
          intro cid hc; rw [t1]; exact (h.co.2 r c cid hco (cn1 cid hc)).ext e1
        have h2 : OriginInv { s1 with co := upd s1.co r (some c') } := h1.setCo r c c' hco1 t1 k1 hcn
        cases pr with
        | pending => exact step1
        | err k => exact step1.trans (dropCheckout_inv h2 r).2.2
        | panic => exact step1.trans (dropCheckout_inv h2 r).2.2
        | got p =>
          simp only []
          have hp := hand p rfl
          have e2 : Ext s1 { s1 with co := upd s1.co r (some c') } := Ext.of_eq rfl rfl
          have h3 : OriginInv { s1 with co := upd s1.co r (some c'), held := upd s1.held r (some p) } := by
            apply h2.setHeld r (some p)
            intro p' hp'
            simp only [Option.some.injEq] at hp'
            subst hp'
            exact ⟨c', by simp, by rw [t1]; exact hp.1.ext e2, by rw [t1]; exact hp.2⟩
          have h4 : OriginInv (if canShare { s1 with co := upd s1.co r (some c'), held := upd s1.held r (some p) } p.conn
              then { s1 with co := upd s1.co r (some c'), held := upd s1.held r (some p) }
              else setConn { s1 with co := upd s1.co r (some c'), held := upd s1.held r (some p) } p.conn (fun k => { k with busy := true })) := by
            split
            · exact h3
            · exact setConn_inv h3 _ _ (fun _ => rfl)
          have c4 : (if canShare { s1 with co := upd s1.co r (some c'), held := upd s1.held r (some p) } p.conn
              then { s1 with co := upd s1.co r (some c'), held := upd s1.held r (some p) }
              else setConn { s1 with co := upd s1.co r (some c'), held := upd s1.held r (some p) } p.conn (fun k => { k with busy := true })).co
                = upd s1.co r (some c') := by
            split
            · rfl
            · rw [setConn_co]
          exact (step1.trans (CoSame.of_eq c4)).trans (dropCheckout_inv h4 r).2.2
  | cancel r =>
    simp only [step]
    cases hh : s.held r with
    | some p => simp only []; rw [dropPooled_co]; exact CoSame.refl _
    | none =>
      simp only []
      cases hco : s.co r with
      | none => exact CoSame.refl _
      | some c =>
        simp only []
        split
        · exact (dropCheckout_inv h r).2.2
        · exact CoSame.refl _
  | cancelOff r =>
    simp only [step]
    cases hh : s.held r with
    | some p =>
      simp only []
      have hf := h.held r p hh
      have h1 : OriginInv { s with held := upd s.held r none } := h.setHeld r none (fun p hp => by cases hp)
      have h2 := abortTask_coSame (dropPooled_inv h1 p (hf.pooledOk.ext (Ext.of_eq rfl rfl))) s.nextTask
      rw [dropPooled_co] at h2
      exact h2
    | none => exact CoSame.refl _
  | dialDone r o =>
    simp only [step]
    split <;> exact CoSame.refl _
  | finish r =>
    simp only [step]
    cases hh : s.held r with
    | some p => simp only []; rw [dropPooled_co]; exact CoSame.refl _
    | none => exact CoSame.refl _
  | connReady c =>
    simp only [step]
    split
    · exact CoSame.of_eq (setConn_co s c _)
    · exact CoSame.refl _
  | connClose c =>
    simp only [step]
    split
    · exact CoSame.of_eq (setConn_co s c _)
    · exact CoSame.refl _
  | connFail c =>
    simp only [step]
    split
    · split
      · exact CoSame.of_eq (setConn_co s c _)
      · exact CoSame.refl _
    · exact CoSame.refl _
  | run => exact runAll_coSame _ s h
  | tick ms => exact CoSame.refl _
  | mark => exact CoSame.refl _
  | shutdown => exact abortAll_coSame _ s h

end Hd.Pool
