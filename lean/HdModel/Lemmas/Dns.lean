import HdModel.Spec.Dns
/-! Helper lemmas for C16 (core Lean only). -/
namespace Hd.Dns

/-- The scan loop computes, relative to the offset `idx`, the index of the first IPv4 and of the
    first IPv6 address, keeping indices already found. -/
theorem scanLoop_spec (l : List Addr) (idx : Nat) (i4 i6 : Option Nat) :
    scanLoop l idx i4 i6 =
      (i4 <|> (l.findIdx? isV4).map (· + idx), i6 <|> (l.findIdx? isV6).map (· + idx)) := by
  induction l generalizing idx i4 i6 with
  | nil => simp [scanLoop]
  | cons a rest ih =>
    unfold scanLoop
    cases hv : a.v6 <;> cases i4 <;> cases i6 <;>
      simp [ih, List.findIdx?_cons, isV4, isV6, hv, Option.map_map, Function.comp_def,
        Nat.add_comm, Nat.add_left_comm] <;>
      cases (List.findIdx? _ rest) <;> simp <;> omega

theorem removeIdx_findIdx (p : Addr → Bool) (l : List Addr) :
    removeIdx l (l.findIdx? p) = (l.find? p, l.eraseP p) := by
  induction l with
  | nil => simp [removeIdx]
  | cons a rest ih =>
    by_cases h : p a
    · simp [List.findIdx?_cons, h, removeIdx]
    · simp only [List.findIdx?_cons, h, List.find?_cons, List.eraseP_cons]
      cases hf : rest.findIdx? p with
      | none => simp [hf, removeIdx] at ih ⊢; exact ih
      | some i => simp [hf, removeIdx] at ih ⊢; exact ih

theorem find_perm (p : Addr → Bool) (l : List Addr) (a : Addr) (h : l.find? p = some a) :
    (a :: l.eraseP p).Perm l := by
  induction l with
  | nil => simp at h
  | cons b rest ih =>
    by_cases hb : p b
    · simp [List.find?_cons, hb] at h; subst h; simp [List.eraseP_cons, hb]
    · simp [List.find?_cons, hb] at h
      simp only [List.eraseP_cons, hb]
      exact (List.Perm.swap b a _).trans ((ih h).cons b)

theorem find_none_eraseP (p : Addr → Bool) (l : List Addr) (h : l.find? p = none) :
    l.eraseP p = l := by
  apply List.eraseP_of_forall_not
  intro a ha
  have := List.find?_eq_none.mp h a ha
  simpa using this

end Hd.Dns
