import HdModel.Lemmas.PoolReady
/-! No stranded waiter (C03): in every reachable state, a live checkout that only waits for somebody
    else's connection attempt and whose channel is still empty is queued for its origin **and** the
    origin's attempt-in-progress marker is set. So such a checkout can be `Pending` only while an
    attempt is in flight; whenever the marker goes away (success, failure, cancellation) every queued
    waiter has been given a connection or a closed channel. -/
namespace Hd.Pool

/-- `r` is a live pure waiter whose channel is still empty; `t` is its token -/
def PureEmpty (s : State) (r : ReqId) (t : Token) : Prop :=
  ∃ c, s.co r = some c ∧ c.alive = true ∧ c.inner = .waiting ∧ c.token = t ∧ s.chan r = .empty

def Waiters (s : State) : Prop :=
  ∀ r t, PureEmpty s r t → s.connecting.contains t = true ∧ r ∈ s.waiting t

theorem waiters_init (cfg : Config) : Waiters (init cfg) := by
  intro r t ⟨c, hc, _⟩
  simp [init] at hc

/-- `s'` has no new empty pure waiters, and no fewer markers or queue entries, than `s` -/
structure WMono (s' s : State) : Prop where
  pe : ∀ r t, PureEmpty s' r t → PureEmpty s r t
  conn : ∀ t, s.connecting.contains t = true → s'.connecting.contains t = true
  wait : ∀ t r, r ∈ s.waiting t → r ∈ s'.waiting t

theorem WMono.refl (s : State) : WMono s s := ⟨fun _ _ h => h, fun _ h => h, fun _ _ h => h⟩

theorem WMono.trans {a b c : State} (h1 : WMono a b) (h2 : WMono b c) : WMono a c :=
  ⟨fun r t h => h2.pe r t (h1.pe r t h), fun t h => h1.conn t (h2.conn t h), fun t r h => h1.wait t r (h2.wait t r h)⟩

theorem Waiters.mono {s s' : State} (h : Waiters s) (hm : WMono s' s) : Waiters s' := by
  intro r t hp
  obtain ⟨a, b⟩ := h r t (hm.pe r t hp)
  exact ⟨hm.conn t a, hm.wait t r b⟩

/-- fields that matter are untouched -/
theorem WMono.of_eq {s s' : State} (hco : s'.co = s.co) (hch : s'.chan = s.chan) (hcn : s'.connecting = s.connecting)
    (hw : s'.waiting = s.waiting) : WMono s' s := by
  refine ⟨?_, fun t h => by rw [hcn]; exact h, fun t r h => by rw [hw]; exact h⟩
  intro r t ⟨c, h1, h2, h3, h4, h5⟩
  exact ⟨c, by rw [← hco]; exact h1, h2, h3, h4, by rw [← hch]; exact h5⟩

/-- channel of `r` set to something that is not `empty` -/
theorem WMono.setChan {s : State} (r : ReqId) (v : Chan) (hv : v ≠ .empty) : WMono { s with chan := upd s.chan r v } s := by
  refine ⟨?_, fun _ h => h, fun _ _ h => h⟩
  intro r' t ⟨c, h1, h2, h3, h4, h5⟩
  by_cases e : r' = r
  · subst e; simp only [upd_same] at h5; exact absurd h5 hv
  · exact ⟨c, h1, h2, h3, h4, by simpa [upd, e] using h5⟩

/-- checkout of `r` replaced by one that is not a live pure waiter unless the old one was (same token) -/
theorem WMono.setCo {s : State} (r : ReqId) (c' : Checkout)
    (h : c'.alive = true → c'.inner = .waiting → ∃ c, s.co r = some c ∧ c.alive = true ∧ c.inner = .waiting ∧ c.token = c'.token) :
    WMono { s with co := upd s.co r (some c') } s := by
  refine ⟨?_, fun _ h => h, fun _ _ h => h⟩
  intro r' t ⟨c, h1, h2, h3, h4, h5⟩
  by_cases e : r' = r
  · subst e
    simp only [upd_same, Option.some.injEq] at h1
    subst h1
    obtain ⟨c0, a, b, d, f⟩ := h h2 h3
    exact ⟨c0, a, b, d, f.trans h4, h5⟩
  · exact ⟨c, by simpa [upd, e] using h1, h2, h3, h4, h5⟩

end Hd.Pool

namespace Hd.Pool

theorem contains_erase_ne (l : List Token) (t t' : Token) (h : t' ≠ t) : (l.erase t).contains t' = l.contains t' := by
  have : t' ∈ l.erase t ↔ t' ∈ l := List.mem_erase_of_ne h
  cases h1 : (l.erase t).contains t' <;> cases h2 : l.contains t' <;> simp_all

/-- what the delivery loop does to the fields the invariant reads -/
theorem pushLoop_spec (token : Token) (c : ConnId) : ∀ (q : List ReqId) (s : State),
    (pushLoop s token c q).1.co = s.co ∧ (pushLoop s token c q).1.connecting = s.connecting ∧
    (∀ t', t' ≠ token → (pushLoop s token c q).1.waiting t' = s.waiting t') ∧
    (∀ r, (pushLoop s token c q).1.chan r = .empty → s.chan r = .empty) ∧
    (canShare s c = true → ∀ r ∈ q, (pushLoop s token c q).1.chan r ≠ .empty) ∧
    (canShare s c = false → ∀ r ∈ q, (pushLoop s token c q).1.chan r = .empty → r ∈ (pushLoop s token c q).1.waiting token)
  | [], s => by
    simp only [pushLoop]
    refine ⟨by first | rfl | trivial, by first | rfl | trivial, fun t' h => by simp [upd, h], fun _ h => h, fun _ r hr => by simp at hr, fun _ r hr => by simp at hr⟩
  | r0 :: rest, s => by
    simp only [pushLoop]
    split
    · rename_i hemp
      split
      · rename_i hshare
        obtain ⟨a, b, d, e, f, _⟩ := pushLoop_spec token c rest { s with chan := upd s.chan r0 (.full ⟨c, 0, true⟩) }
        refine ⟨a, b, d, ?_, ?_, fun hns => by rw [hshare] at hns; cases hns⟩
        · intro r hr
          have := e r hr
          by_cases e0 : r = r0
          · subst e0; simp at this
          · simpa [upd, e0] using this
        · intro _ r hr
          simp only [List.mem_cons] at hr
          rcases hr with rfl | hr
          · intro hcon
            have := e _ hcon
            simp at this
          · exact f (by exact hshare) r hr
      · rename_i hns
        refine ⟨rfl, rfl, fun t' h => by simp [upd, h], ?_, fun hs => by rw [hs] at hns; exact absurd rfl hns, ?_⟩
        · intro r hr
          by_cases e0 : r = r0
          · subst e0; simp at hr
          · simpa [upd, e0] using hr
        · intro _ r hr hch
          simp only [List.mem_cons] at hr
          rcases hr with rfl | hr
          · simp at hch
          · simp [hr]
    · rename_i hne
      obtain ⟨a, b, d, e, f, g⟩ := pushLoop_spec token c rest s
      refine ⟨a, b, d, e, ?_, ?_⟩
      · intro hs r hr
        simp only [List.mem_cons] at hr
        rcases hr with rfl | hr
        · intro hcon
          have := e _ hcon
          cases hch : s.chan r with
          | empty => exact hne hch
          | _ => rw [hch] at this; cases this
        · exact f hs r hr
      · intro hs r hr hch
        simp only [List.mem_cons] at hr
        rcases hr with rfl | hr
        · have := e _ hch
          exact absurd this (by intro h; exact hne h)
        · exact g hs r hr hch

theorem push_waiters {s : State} (h : Waiters s) (token : Token) (c : ConnId) : Waiters (push s token c) := by
  -- state after `clearMarker`
  have hcm : (clearMarker s token c).co = s.co ∧ (clearMarker s token c).chan = s.chan ∧
      (clearMarker s token c).waiting = s.waiting ∧ canShare (clearMarker s token c) c = canShare s c ∧
      (∀ t', t' ≠ token → (clearMarker s token c).connecting.contains t' = s.connecting.contains t') ∧
      (canShare s c = false → (clearMarker s token c).connecting = s.connecting) := by
    unfold clearMarker
    split
    · rename_i hs
      exact ⟨rfl, rfl, rfl, rfl, fun t' ht => contains_erase_ne _ _ _ ht, fun hns => by rw [hs] at hns; cases hns⟩
    · exact ⟨rfl, rfl, rfl, rfl, fun _ _ => rfl, fun _ => rfl⟩
  obtain ⟨m1, m2, m3, m4, m5, m6⟩ := hcm
  obtain ⟨a, b, d, e, f, g⟩ := pushLoop_spec token c ((clearMarker s token c).waiting token) (clearMarker s token c)
  -- the remaining branches of `push` leave co / chan / connecting / waiting alone
  have key : ∀ s2 : State, s2.co = (pushLoop (clearMarker s token c) token c ((clearMarker s token c).waiting token)).1.co →
      s2.chan = (pushLoop (clearMarker s token c) token c ((clearMarker s token c).waiting token)).1.chan →
      s2.connecting = (pushLoop (clearMarker s token c) token c ((clearMarker s token c).waiting token)).1.connecting →
      s2.waiting = (pushLoop (clearMarker s token c) token c ((clearMarker s token c).waiting token)).1.waiting →
      Waiters s2 := by
    intro s2 e1 e2 e3 e4 r t ⟨ck, h1, h2, h3, h4, h5⟩
    rw [e1, a, m1] at h1
    rw [e2] at h5
    have h5' : s.chan r = .empty := by have := e r h5; rw [m2] at this; exact this
    obtain ⟨hc, hw⟩ := h r t ⟨ck, h1, h2, h3, h4, h5'⟩
    by_cases et : t = token
    · subst et
      have hq : r ∈ (clearMarker s t c).waiting t := by rw [m3]; exact hw
      cases hs : canShare s c with
      | true => exact absurd h5 (f (by rw [m4]; exact hs) r hq)
      | false =>
        have := g (by rw [m4]; exact hs) r hq h5
        refine ⟨?_, by rw [e4]; exact this⟩
        rw [e3, b, m6 hs]; exact hc
    · refine ⟨?_, ?_⟩
      · rw [e3, b, m5 t et]; exact hc
      · rw [e4, d t et, m3]; exact hw
  unfold push
  simp only []
  generalize hpl : pushLoop (clearMarker s token c) token c ((clearMarker s token c).waiting token) = pl at key
  obtain ⟨s1, delivered⟩ := pl
  simp only [] at key ⊢
  split
  · exact key s1 rfl rfl rfl rfl
  · split
    · exact key _ rfl rfl rfl rfl
    · split
      · exact key s1 rfl rfl rfl rfl
      · exact key _ rfl rfl rfl rfl

theorem dropSenders_spec : ∀ (l : List ReqId) (s : State),
    (dropSenders s l).co = s.co ∧ (dropSenders s l).connecting = s.connecting ∧ (dropSenders s l).waiting = s.waiting ∧
    (∀ r, (dropSenders s l).chan r = .empty → s.chan r = .empty) ∧ (∀ r ∈ l, (dropSenders s l).chan r ≠ .empty)
  | [], s => ⟨rfl, rfl, rfl, fun _ h => h, fun _ h => by simp at h⟩
  | r0 :: rest, s => by
    simp only [dropSenders]
    have h1 : ∀ x : State, x = (match s.chan r0 with | .empty => { s with chan := upd s.chan r0 .txGone } | _ => s) →
        x.co = s.co ∧ x.connecting = s.connecting ∧ x.waiting = s.waiting ∧ (∀ r, x.chan r = .empty → s.chan r = .empty) ∧ x.chan r0 ≠ .empty := by
      intro x hx
      subst hx
      split
      · refine ⟨rfl, rfl, rfl, ?_, by simp⟩
        intro r hr
        by_cases e : r = r0
        · subst e; simp at hr
        · simpa [upd, e] using hr
      · rename_i hne
        exact ⟨rfl, rfl, rfl, fun _ h => h, fun h => hne h⟩
    obtain ⟨a1, a2, a3, a4, a5⟩ := h1 _ rfl
    obtain ⟨b1, b2, b3, b4, b5⟩ := dropSenders_spec rest (match s.chan r0 with | .empty => { s with chan := upd s.chan r0 .txGone } | _ => s)
    refine ⟨b1.trans a1, b2.trans a2, b3.trans a3, fun r hr => a4 r (b4 r hr), ?_⟩
    intro r hr
    simp only [List.mem_cons] at hr
    rcases hr with rfl | hr
    · intro hcon; exact a5 (b4 _ hcon)
    · exact b5 r hr

theorem cancelConnection_waiters {s : State} (h : Waiters s) (t : Token) : Waiters (cancelConnection s t) := by
  unfold cancelConnection
  split
  · simp only []
    obtain ⟨b1, b2, b3, b4, b5⟩ := dropSenders_spec (s.waiting t) { s with connecting := s.connecting.erase t }
    intro r t' ⟨ck, h1, h2, h3, h4, h5⟩
    have h1' : s.co r = some ck := by simpa [b1] using h1
    have h5' : s.chan r = .empty := b4 r h5
    obtain ⟨hc, hw⟩ := h r t' ⟨ck, h1', h2, h3, h4, h5'⟩
    by_cases et : t' = t
    · subst et; exact absurd h5 (b5 r hw)
    · refine ⟨?_, ?_⟩
      · show ((dropSenders { s with connecting := s.connecting.erase t } (s.waiting t)).connecting).contains t' = true
        rw [b2]; show (s.connecting.erase t).contains t' = true
        rw [contains_erase_ne _ _ _ et]; exact hc
      · show r ∈ upd (dropSenders { s with connecting := s.connecting.erase t } (s.waiting t)).waiting t [] t'
        simp only [upd, et, if_false]
        rw [b3]; exact hw
  · exact h

theorem issueMissing_waiters {s : State} (h : Waiters s) (r : ReqId) (k : KeyId) (mux : Bool) (t : Token)
    (hr : s.co r = none) : Waiters (issueMissing s r k mux t) := by
  unfold issueMissing
  simp only []
  -- common shape of both outcomes
  have key : ∀ (chk : Checkout) (conn : List Token) (att : Nat) (own : Token → Nat), chk.token = t → (∀ t', s.connecting.contains t' = true → conn.contains t' = true) →
      (chk.inner = .waiting → conn.contains t = true) →
      Waiters { s with waiting := upd s.waiting t (s.waiting t ++ [r]), chan := upd s.chan r .empty,
                       connecting := conn, attempts := att, owner := own, co := upd s.co r (some chk) } := by
    intro chk conn att own hct hmono hwait r' t' ⟨ck, h1, h2, h3, h4, h5⟩
    by_cases e : r' = r
    · subst e
      simp only [upd_same, Option.some.injEq] at h1
      subst h1
      rw [hct] at h4; subst h4
      exact ⟨hwait h3, by simp⟩
    · have h1' : s.co r' = some ck := by simpa [upd, e] using h1
      have h5' : s.chan r' = .empty := by simpa [upd, e] using h5
      obtain ⟨hc, hw⟩ := h r' t' ⟨ck, h1', h2, h3, h4, h5'⟩
      refine ⟨hmono t' hc, ?_⟩
      show r' ∈ upd s.waiting t (s.waiting t ++ [r]) t'
      by_cases et : t' = t
      · subst et; simp [hw]
      · simp only [upd, et, if_false]; exact hw
  split
  · rename_i hcon
    exact key _ _ _ _ rfl (fun _ h => h) (fun _ => hcon)
  · split
    · refine key _ _ _ _ rfl (fun t' ht' => ?_) (fun hi => ?_)
      · have : t' ∈ s.connecting := by simpa using ht'
        simp [this]
      · split at hi <;> cases hi
    · refine key _ _ _ _ rfl (fun t' ht' => ht') (fun hi => ?_)
      split at hi <;> cases hi

end Hd.Pool

namespace Hd.Pool

theorem spawn_wmono (s : State) (t : Task) : WMono (spawn s t) s := WMono.of_eq rfl rfl rfl rfl

theorem dropPooled_wmono (s : State) (p : Pooled) : WMono (dropPooled s p) s := by
  unfold dropPooled; split
  · exact WMono.refl s
  · exact spawn_wmono s _

theorem tokenOf_wmono (s : State) (k : KeyId) : WMono (tokenOf s k).1 s ∧ (tokenOf s k).1.co = s.co := by
  unfold tokenOf; split
  · exact ⟨WMono.refl s, rfl⟩
  · exact ⟨WMono.of_eq rfl rfl rfl rfl, rfl⟩

theorem issueFound_waiters {s : State} (h : Waiters s) (r : ReqId) (k : KeyId) (mux : Bool) (t : Token) (c : ConnId) :
    Waiters (issueFound s r k mux t c) := by
  unfold issueFound
  have h1 : WMono (if canShare s c then { s with idle := upd s.idle t ((c, s.now) :: s.idle t) } else s) s := by
    split
    · exact WMono.of_eq rfl rfl rfl rfl
    · exact WMono.refl s
  generalize (if canShare s c then { s with idle := upd s.idle t ((c, s.now) :: s.idle t) } else s) = s1 at h1
  have h2 : WMono { s1 with chan := upd s1.chan r .txGone } s1 := WMono.setChan r .txGone (by intro e; cases e)
  have h3 : ∀ chk : Checkout, chk.inner = .connected →
      WMono { s1 with chan := upd s1.chan r .txGone, co := upd s1.co r (some chk) } { s1 with chan := upd s1.chan r .txGone } :=
    fun chk hi => WMono.setCo (s := { s1 with chan := upd s1.chan r .txGone }) r chk (fun _ hw => by rw [hi] at hw; cases hw)
  exact h.mono (((h3 _ rfl).trans h2).trans h1)

theorem issue_waiters {s : State} (h : Waiters s) (r : ReqId) (k : KeyId) (mux : Bool) (hr : s.co r = none) :
    Waiters (issue s r k mux) := by
  unfold issue
  obtain ⟨m0, c0⟩ := tokenOf_wmono s k
  simp only []
  generalize tokenOf s k = tk at m0 c0
  obtain ⟨s0, t⟩ := tk
  simp only [] at m0 c0 ⊢
  have m2 : WMono (noteDropped { s0 with idle := upd s0.idle t (idlePop s0 (s0.idle t)).2.1 } (idlePop s0 (s0.idle t)).2.2) s0 :=
    WMono.of_eq rfl rfl rfl rfl
  have h2 := h.mono (m2.trans m0)
  have hr2 : (noteDropped { s0 with idle := upd s0.idle t (idlePop s0 (s0.idle t)).2.1 } (idlePop s0 (s0.idle t)).2.2).co r = none := by
    show s0.co r = none; rw [c0]; exact hr
  cases hp : (idlePop s0 (s0.idle t)).1 with
  | none => simp only []; exact issueMissing_waiters h2 r k mux t hr2
  | some c => simp only []; exact issueFound_waiters h2 r k mux t c

theorem dropRx_wmono (s : State) (r : ReqId) : WMono (dropRx s r) s := by
  unfold dropRx
  split
  · exact (dropPooled_wmono _ _).trans (WMono.setChan r .rxGone (by intro e; cases e))
  · exact WMono.setChan r .rxGone (by intro e; cases e)
  · exact WMono.refl s

theorem returnUnused_waiters {s : State} (h : Waiters s) (c : Checkout) : Waiters (returnUnused s c) := by
  unfold returnUnused
  split
  · split
    · exact push_waiters h _ _
    · split
      · exact h
      · exact h.mono (WMono.of_eq rfl rfl rfl rfl)
  · exact h

theorem cancelIfOwner_waiters {s : State} (h : Waiters s) (c : Checkout) : Waiters (cancelIfOwner s c) := by
  unfold cancelIfOwner; split
  · exact cancelConnection_waiters h _
  · exact h

theorem dropCheckout_waiters {s : State} (h : Waiters s) (r : ReqId) : Waiters (dropCheckout s r) := by
  unfold dropCheckout
  cases hco : s.co r with
  | none => exact h
  | some c =>
    simp only []
    split
    · exact h
    · have m0 : WMono (takeConn s r c) s :=
        WMono.setCo r _ (fun ha hi => ⟨c, hco, ha, hi, rfl⟩)
      have h1 := returnUnused_waiters (h.mono m0) c
      generalize returnUnused (takeConn s r c) c = s1 at h1
      have dead : ∀ (s3 : State) (chk : Checkout), chk.alive = false → WMono { s3 with co := upd s3.co r (some chk) } s3 :=
        fun s3 chk ha => WMono.setCo r chk (fun ha' _ => by rw [ha] at ha'; cases ha')
      split
      · exact (h1.mono ((dropRx_wmono _ r).trans (spawn_wmono s1 (.delayed r)))).mono (dead _ _ rfl)
      · exact ((cancelIfOwner_waiters h1 c).mono (dropRx_wmono _ r)).mono (dead _ _ rfl)

theorem startDial_wmono (s : State) (r : ReqId) : WMono (startDial s r) s := by
  unfold startDial; split
  · exact WMono.refl s
  · exact WMono.of_eq rfl rfl rfl rfl

theorem registerConnected_waiters {s : State} (h : Waiters s) (c : Checkout) (cid : ConnId) :
    Waiters (registerConnected s c cid).1 := by
  unfold registerConnected; split
  · exact push_waiters h _ _
  · exact h

/-- the checkout a poll returns is alive iff the old one was, and is a pure waiter only if the old one was -/
theorem pollWaiter_fields (s : State) (r : ReqId) (c : Checkout) :
    (pollWaiter s r c).2.1.alive = c.alive ∧ (pollWaiter s r c).2.1.inner = c.inner ∧ (pollWaiter s r c).2.1.token = c.token ∧
    WMono (pollWaiter s r c).1 s ∧ (pollWaiter s r c).1.co = s.co := by
  unfold pollWaiter
  cases c.waiter with
  | idle =>
    simp only []
    split
    · exact ⟨rfl, rfl, rfl, WMono.setChan r .rxGone (by intro e; cases e), rfl⟩
    · exact ⟨rfl, rfl, rfl, WMono.refl s, rfl⟩
    · exact ⟨rfl, rfl, rfl, WMono.refl s, rfl⟩
  | connecting =>
    simp only []
    split
    · exact ⟨rfl, rfl, rfl, WMono.setChan r .rxGone (by intro e; cases e), rfl⟩
    · exact ⟨rfl, rfl, rfl, WMono.refl s, rfl⟩
    · exact ⟨rfl, rfl, rfl, WMono.refl s, rfl⟩
  | noPool => exact ⟨rfl, rfl, rfl, WMono.refl s, rfl⟩

theorem pollCheckout_waiters {s : State} (h : Waiters s) (r : ReqId) (c : Checkout) :
    Waiters (pollCheckout s r c).1 ∧ (pollCheckout s r c).1.co = s.co ∧
    (pollCheckout s r c).2.1.alive = c.alive ∧ (pollCheckout s r c).2.1.token = c.token ∧
    ((pollCheckout s r c).2.1.inner = .waiting → c.inner = .waiting) := by
  obtain ⟨a1, a2, a3, a4, a5⟩ := pollWaiter_fields s r c
  unfold pollCheckout
  generalize pollWaiter s r c = pw at a1 a2 a3 a4 a5
  obtain ⟨s1, cw, w⟩ := pw
  simp only [] at a1 a2 a3 a4 a5 ⊢
  have h1 := h.mono a4
  cases w with
  | none => exact ⟨h1, a5, a1, a3, fun hi => by rw [← a2]; exact hi⟩
  | some w' =>
    cases w' with
    | some p => exact ⟨h1, a5, a1, a3, fun hi => by rw [← a2]; exact hi⟩
    | none =>
      simp only []
      cases hin : cw.inner with
      | waiting => exact ⟨h1, a5, a1, a3, fun _ => by rw [← a2]; exact hin⟩
      | connected =>
        simp only []
        cases hcn : cw.conn with
        | none => simp only []; exact ⟨h1, a5, a1, a3, fun hi => by first | cases hi | (rw [hin] at hi; cases hi)⟩
        | some cid =>
          simp only []
          exact ⟨h1.mono (dropRx_wmono s1 r), by rw [dropRx_co]; exact a5, a1, a3, fun hi => by first | cases hi | (rw [hin] at hi; cases hi)⟩
      | connecting | delayDrop | delayed =>
        simp only []
        have h2 := h1.mono (startDial_wmono s1 r)
        have c2 : (startDial s1 r).co = s.co := by rw [startDial_co]; exact a5
        cases hout : (s1.dial r).outcome with
        | none => exact ⟨h2, c2, a1, a3, fun hi => by first | cases hi | (rw [hin] at hi; cases hi)⟩
        | some out =>
          simp only []
          have h3 := h2.mono (dropRx_wmono (startDial s1 r) r)
          have c3 : (dropRx (startDial s1 r) r).co = s.co := by rw [dropRx_co]; exact c2
          cases out with
          | failConnect => exact ⟨h3, c3, a1, a3, fun hi => by cases hi⟩
          | failHandshake => exact ⟨h3, c3, a1, a3, fun hi => by cases hi⟩
          | ok alpn =>
            simp only []
            have h4 : Waiters (newConn (dropRx (startDial s1 r) r) { cw with inner := .connected, waiter := .noPool } alpn).1 :=
              h3.mono (WMono.of_eq rfl rfl rfl rfl)
            have c4 : (newConn (dropRx (startDial s1 r) r) { cw with inner := .connected, waiter := .noPool } alpn).1.co = s.co := c3
            generalize newConn (dropRx (startDial s1 r) r) { cw with inner := .connected, waiter := .noPool } alpn = nc at h4 c4
            obtain ⟨s4, cid⟩ := nc
            simp only [] at h4 c4 ⊢
            have h5 := registerConnected_waiters h4 { cw with inner := .connected, waiter := .noPool } cid
            have c5 : (registerConnected s4 { cw with inner := .connected, waiter := .noPool } cid).1.co = s.co := by
              have : (registerConnected s4 { cw with inner := .connected, waiter := .noPool } cid).1.co = s4.co := by
                unfold registerConnected; split
                · -- `push` leaves `co` alone
                  have : ∀ (x : State) (tk : Token) (y : ConnId), (push x tk y).co = x.co := by
                    intro x tk y
                    unfold push
                    simp only []
                    obtain ⟨pa, _⟩ := pushLoop_spec tk y ((clearMarker x tk y).waiting tk) (clearMarker x tk y)
                    have hcm : (clearMarker x tk y).co = x.co := by unfold clearMarker; split <;> rfl
                    generalize pushLoop (clearMarker x tk y) tk y ((clearMarker x tk y).waiting tk) = pl at pa
                    obtain ⟨x1, d⟩ := pl
                    simp only [] at pa ⊢
                    split
                    · rw [pa, hcm]
                    · split
                      · show x1.co = x.co; rw [pa, hcm]
                      · split
                        · rw [pa, hcm]
                        · show x1.co = x.co; rw [pa, hcm]
                  exact this _ _ _
                · rfl
              rw [this]; exact c4
            generalize registerConnected s4 { cw with inner := .connected, waiter := .noPool } cid = rc at h5 c5
            obtain ⟨s5, p⟩ := rc
            exact ⟨h5, c5, a1, a3, fun hi => by cases hi⟩

end Hd.Pool

namespace Hd.Pool

theorem runWhenReady_waiters {s : State} (h : Waiters s) (i : Nat) (c : ConnId) (t : Token) (hp : Bool) :
    Waiters (runWhenReady s i c t hp) := by
  have h1 : Waiters (removeTask s i) := h.mono (WMono.of_eq rfl rfl rfl rfl)
  unfold runWhenReady
  split
  · exact h1
  · split
    · exact h1.mono (WMono.of_eq rfl rfl rfl rfl)
    · split
      · exact h
      · simp only []
        split
        · exact push_waiters h1 t c
        · exact h1.mono (WMono.of_eq rfl rfl rfl rfl)

/-- writing the polled checkout back -/
theorem commit_wmono {s1 : State} {r : ReqId} {c c' : Checkout} (hco : s1.co r = some c)
    (ha : c'.alive = c.alive) (ht : c'.token = c.token) (hi : c'.inner = .waiting → c.inner = .waiting) :
    WMono { s1 with co := upd s1.co r (some c') } s1 :=
  WMono.setCo r c' (fun ha' hi' => ⟨c, hco, by rw [← ha]; exact ha', hi hi', ht.symm⟩)

theorem runDelayed_waiters {s : State} (h : Waiters s) (i : Nat) (r : ReqId) : Waiters (runDelayed s i r) := by
  unfold runDelayed
  cases hco : s.co r with
  | none => exact h.mono (WMono.of_eq rfl rfl rfl rfl)
  | some c =>
    simp only []
    obtain ⟨h1, c1, a1, t1, i1⟩ := pollCheckout_waiters h r c
    generalize pollCheckout s r c = res at h1 c1 a1 t1 i1
    obtain ⟨s1, c', pr⟩ := res
    simp only [] at h1 c1 a1 t1 i1 ⊢
    have hco1 : s1.co r = some c := by rw [c1]; exact hco
    have h2 : Waiters { s1 with co := upd s1.co r (some c') } := h1.mono (commit_wmono hco1 a1 t1 i1)
    have tail : Waiters { (cancelIfOwner (removeTask { s1 with co := upd s1.co r (some c') } i) c') with
        co := upd (cancelIfOwner (removeTask { s1 with co := upd s1.co r (some c') } i) c').co r (some { c' with marker := false }) } := by
      have h3 : Waiters (removeTask { s1 with co := upd s1.co r (some c') } i) := h2.mono (WMono.of_eq rfl rfl rfl rfl)
      have h4 := cancelIfOwner_waiters h3 c'
      have hr4 : (cancelIfOwner (removeTask { s1 with co := upd s1.co r (some c') } i) c').co r = some c' := by
        rw [cancelIfOwner_co]; show upd s1.co r (some c') r = some c'; simp
      exact h4.mono (commit_wmono (c' := { c' with marker := false }) hr4 rfl rfl (fun hi => hi))
    cases pr with
    | pending => exact h2
    | got p => exact tail.mono (dropPooled_wmono _ p)
    | err k => exact tail
    | panic => exact tail

end Hd.Pool

namespace Hd.Pool

theorem runTask_waiters {s : State} (h : Waiters s) (i : Nat) : Waiters (runTask s i) := by
  unfold runTask
  cases ht : taskOf s i with
  | none => exact h
  | some t =>
    cases t with
    | whenReady c tk hp => exact runWhenReady_waiters h i c tk hp
    | delayed r => exact runDelayed_waiters h i r

theorem runAll_waiters : ∀ (fuel : Nat) (s : State), Waiters s → Waiters (runAll fuel s)
  | 0, _, h => h
  | fuel + 1, s, h => by
    simp only [runAll]
    split
    · exact h
    · rename_i i q hq
      have hq' : Waiters { s with runq := q } := h.mono (WMono.of_eq rfl rfl rfl rfl)
      exact runAll_waiters fuel _ (runTask_waiters hq' i)

theorem setConn_wmono (s : State) (c : ConnId) (f : Conn → Conn) : WMono (setConn s c f) s := by
  unfold setConn; split
  · exact WMono.of_eq rfl rfl rfl rfl
  · exact WMono.refl s

theorem abortTask_waiters {s : State} (h : Waiters s) (i : Nat) : Waiters (abortTask s i) := by
  unfold abortTask
  cases ht : taskOf s i with
  | none => exact h
  | some t =>
    cases t with
    | whenReady c tk hp => exact h.mono (WMono.of_eq rfl rfl rfl rfl)
    | delayed r =>
      simp only []
      cases hco : s.co r with
      | none => exact h.mono (WMono.of_eq rfl rfl rfl rfl)
      | some c =>
        simp only []
        have h3 : Waiters (removeTask s i) := h.mono (WMono.of_eq rfl rfl rfl rfl)
        have h4 := cancelIfOwner_waiters h3 c
        have hr4 : (cancelIfOwner (removeTask s i) c).co r = some c := by rw [cancelIfOwner_co]; exact hco
        exact h4.mono (commit_wmono (c' := { c with marker := false }) hr4 rfl rfl (fun hi => hi))

theorem abortAll_waiters : ∀ (fuel : Nat) (s : State), Waiters s → Waiters (abortAll fuel s)
  | 0, _, h => h
  | fuel + 1, s, h => by
    simp only [abortAll]
    split
    · exact h.mono (WMono.of_eq rfl rfl rfl rfl)
    · exact abortAll_waiters fuel _ (abortTask_waiters h _)

theorem step_waiters (s : State) (op : Op) (h : Waiters s) : Waiters (step s op).1 := by
  cases op with
  | issue r k mux =>
    simp only [step]
    cases hco : s.co r with
    | some _ => exact h
    | none => exact issue_waiters h r k mux hco
  | poll r =>
    simp only [step]
    cases hco : s.co r with
    | none => exact h
    | some c =>
      simp only []
      split
      · exact h
      · obtain ⟨h1, c1, a1, t1, i1⟩ := pollCheckout_waiters h r c
        generalize pollCheckout s r c = res at h1 c1 a1 t1 i1
        obtain ⟨s1, c', pr⟩ := res
        simp only [] at h1 c1 a1 t1 i1 ⊢
        have hco1 : s1.co r = some c := by rw [c1]; exact hco
        have h2 : Waiters { s1 with co := upd s1.co r (some c') } := h1.mono (commit_wmono hco1 a1 t1 i1)
        cases pr with
        | pending => exact h2
        | err k => exact dropCheckout_waiters h2 r
        | panic => exact dropCheckout_waiters h2 r
        | got p =>
          simp only []
          have h3 : Waiters { s1 with co := upd s1.co r (some c'), held := upd s1.held r (some p) } :=
            h2.mono (WMono.of_eq rfl rfl rfl rfl)
          have h4 : Waiters (if canShare { s1 with co := upd s1.co r (some c'), held := upd s1.held r (some p) } p.conn
              then { s1 with co := upd s1.co r (some c'), held := upd s1.held r (some p) }
              else setConn { s1 with co := upd s1.co r (some c'), held := upd s1.held r (some p) } p.conn (fun k => { k with busy := true })) := by
            split
            · exact h3
            · exact h3.mono (setConn_wmono _ _ _)
          exact dropCheckout_waiters h4 r
  | cancel r =>
    simp only [step]
    cases hh : s.held r with
    | some p =>
      simp only []
      exact (h.mono (WMono.of_eq (s' := { s with held := upd s.held r none }) rfl rfl rfl rfl)).mono (dropPooled_wmono _ p)
    | none =>
      simp only []
      cases hco : s.co r with
      | none => exact h
      | some c =>
        simp only []
        split
        · exact dropCheckout_waiters h r
        · exact h
  | cancelOff r =>
    simp only [step]
    cases hh : s.held r with
    | some p =>
      simp only []
      exact abortTask_waiters ((h.mono (WMono.of_eq (s' := { s with held := upd s.held r none }) rfl rfl rfl rfl)).mono (dropPooled_wmono _ p)) _
    | none => exact h
  | dialDone r o =>
    simp only [step]
    split
    · exact h.mono (WMono.of_eq rfl rfl rfl rfl)
    · exact h
  | finish r =>
    simp only [step]
    cases hh : s.held r with
    | some p =>
      simp only []
      exact (h.mono (WMono.of_eq (s' := { s with held := upd s.held r none }) rfl rfl rfl rfl)).mono (dropPooled_wmono _ p)
    | none => exact h
  | connReady c =>
    simp only [step]
    split
    · exact (h.mono (setConn_wmono s c _)).mono (WMono.of_eq rfl rfl rfl rfl)
    · exact h
  | connClose c =>
    simp only [step]
    split
    · exact (h.mono (setConn_wmono s c _)).mono (WMono.of_eq rfl rfl rfl rfl)
    · exact h
  | connFail c =>
    simp only [step]
    split
    · split
      · exact (h.mono (setConn_wmono s c _)).mono (WMono.of_eq rfl rfl rfl rfl)
      · exact h
    · exact h
  | run => exact runAll_waiters _ s h
  | tick ms => exact h.mono (WMono.of_eq rfl rfl rfl rfl)
  | mark => exact h
  | shutdown => exact abortAll_waiters _ s h

theorem run_waiters : ∀ (ops : List Op) (s : State), Waiters s → Waiters (run s ops).1
  | [], _, h => h
  | op :: ops, s, h => by
    simp only [run]
    exact run_waiters ops _ (step_waiters s op h)

end Hd.Pool
