import HdModel.Lemmas.PoolWaiters
/-! A live pure waiter always has a usable channel (C03). In every reachable state the oneshot channel
    of a live checkout that only waits for somebody else's attempt (`inner = waiting`, still listening)
    is `empty`, `full` or `txGone` – never receiver-gone and never absent. So such a checkout is `Pending`
    exactly while its channel is empty, which by `Waiters` means: marker set and queued. -/
namespace Hd.Pool

def BadChan (ch : Chan) : Prop := ch = .rxGone ∨ ch = .none

def PureLive (c : Checkout) : Prop := c.alive = true ∧ c.inner = .waiting ∧ c.waiter = .connecting

def WaitChan (s : State) : Prop := ∀ r c, s.co r = some c → PureLive c → ¬ BadChan (s.chan r)

theorem waitChan_init (cfg : Config) : WaitChan (init cfg) := by
  intro r c h; simp [init] at h

/-- From `s` to `s'`: apart from request `ex`, no channel becomes bad and no checkout becomes a live pure
    waiter that was not one. -/
structure CFrame (ex : Option ReqId) (s' s : State) : Prop where
  co : ∀ x cx, some x ≠ ex → s'.co x = some cx → PureLive cx → ∃ c0, s.co x = some c0 ∧ PureLive c0
  chan : ∀ x, some x ≠ ex → BadChan (s'.chan x) → BadChan (s.chan x)

theorem CFrame.refl (ex : Option ReqId) (s : State) : CFrame ex s s := ⟨fun _ cx _ h hp => ⟨cx, h, hp⟩, fun _ _ h => h⟩

theorem CFrame.trans {ex : Option ReqId} {a b c : State} (h1 : CFrame ex a b) (h2 : CFrame ex b c) : CFrame ex a c :=
  ⟨fun x cx hx h hp => by
    obtain ⟨c0, h0, hp0⟩ := h1.co x cx hx h hp
    exact h2.co x c0 hx h0 hp0,
   fun x hx h => h2.chan x hx (h1.chan x hx h)⟩

theorem CFrame.of_eq {ex : Option ReqId} {s' s : State} (hco : s'.co = s.co) (hch : s'.chan = s.chan) : CFrame ex s' s :=
  ⟨fun x cx _ h hp => ⟨cx, by rw [← hco]; exact h, hp⟩, fun x _ h => by rw [hch] at h; exact h⟩

theorem CFrame.weaken {ex : Option ReqId} {s' s : State} (h : CFrame none s' s) : CFrame ex s' s :=
  ⟨fun x cx _ hc hp => h.co x cx (by intro e; cases e) hc hp, fun x _ hb => h.chan x (by intro e; cases e) hb⟩

/-- setting one channel to a value that is not bad -/
theorem CFrame.setGood {ex : Option ReqId} (s : State) (r : ReqId) (v : Chan) (hv : ¬ BadChan v) :
    CFrame ex { s with chan := upd s.chan r v } s := by
  refine ⟨fun x cx _ h hp => ⟨cx, h, hp⟩, fun x _ h => ?_⟩
  by_cases e : x = r
  · subst e; simp only [upd_same] at h; exact absurd h hv
  · simpa [upd, e] using h

/-- setting `r`'s own channel to anything -/
theorem CFrame.setOwn (s : State) (r : ReqId) (v : Chan) : CFrame (some r) { s with chan := upd s.chan r v } s := by
  refine ⟨fun x cx _ h hp => ⟨cx, h, hp⟩, fun x hx h => ?_⟩
  have e : x ≠ r := fun e => hx (by rw [e])
  simpa [upd, e] using h

/-- writing `r`'s checkout record (anything) -/
theorem CFrame.setCoOwn (s : State) (r : ReqId) (v : Option Checkout) : CFrame (some r) { s with co := upd s.co r v } s := by
  refine ⟨fun x cx hx h hp => ?_, fun x _ h => h⟩
  have e : x ≠ r := fun e => hx (by rw [e])
  exact ⟨cx, by simpa [upd, e] using h, hp⟩

/-- writing `r`'s checkout record with one that is a live pure waiter only if the old one was -/
theorem CFrame.setCoSame {ex : Option ReqId} (s : State) (r : ReqId) (c c' : Checkout) (hco : s.co r = some c)
    (hp : PureLive c' → PureLive c) : CFrame ex { s with co := upd s.co r (some c') } s := by
  refine ⟨fun x cx _ h hpx => ?_, fun x _ h => h⟩
  by_cases e : x = r
  · subst e
    simp only [upd_same, Option.some.injEq] at h
    subst h
    exact ⟨c, hco, hp hpx⟩
  · exact ⟨cx, by simpa [upd, e] using h, hpx⟩

theorem WaitChan.frame {s s' : State} (h : WaitChan s) (f : CFrame none s' s) : WaitChan s' := by
  intro r c hc hp hb
  obtain ⟨c0, h0, hp0⟩ := f.co r c (by intro e; cases e) hc hp
  exact h r c0 h0 hp0 (f.chan r (by intro e; cases e) hb)

/-- with an exemption: the exempted request is checked directly -/
theorem WaitChan.frameEx {s s' : State} (h : WaitChan s) (r : ReqId) (f : CFrame (some r) s' s)
    (hr : ∀ c, s'.co r = some c → PureLive c → ¬ BadChan (s'.chan r)) : WaitChan s' := by
  intro x c hc hp hb
  by_cases e : x = r
  · subst e; exact hr c hc hp hb
  · have hx : some x ≠ some r := fun e' => e (Option.some.inj e')
    obtain ⟨c0, h0, hp0⟩ := f.co x c hx hc hp
    exact h x c0 h0 hp0 (f.chan x hx hb)

theorem spawn_cframe (ex : Option ReqId) (s : State) (t : Task) : CFrame ex (spawn s t) s := CFrame.of_eq rfl rfl

theorem dropPooled_cframe (ex : Option ReqId) (s : State) (p : Pooled) : CFrame ex (dropPooled s p) s := by
  unfold dropPooled; split
  · exact CFrame.refl ex s
  · exact spawn_cframe ex s _

theorem dropRx_cframe (s : State) (r : ReqId) : CFrame (some r) (dropRx s r) s := by
  unfold dropRx
  split
  · exact (dropPooled_cframe _ _ _).trans (CFrame.setOwn s r .rxGone)
  · exact CFrame.setOwn s r .rxGone
  · exact CFrame.refl _ s

theorem pushLoop_cframe (ex : Option ReqId) (token : Token) (c : ConnId) : ∀ (q : List ReqId) (s : State), CFrame ex (pushLoop s token c q).1 s
  | [], s => by simp only [pushLoop]; exact CFrame.of_eq rfl rfl
  | r0 :: rest, s => by
    simp only [pushLoop]
    split
    · split
      · exact (pushLoop_cframe ex token c rest _).trans (CFrame.setGood s r0 _ (by intro h; rcases h with h | h <;> cases h))
      · refine CFrame.trans ?_ (CFrame.setGood (ex := ex) s r0 (.full ⟨c, token, true⟩) (by intro h; rcases h with h | h <;> cases h))
        exact CFrame.of_eq rfl rfl
    · exact pushLoop_cframe ex token c rest s

theorem clearMarker_cframe (ex : Option ReqId) (s : State) (t : Token) (c : ConnId) : CFrame ex (clearMarker s t c) s := by
  unfold clearMarker; split
  · exact CFrame.of_eq rfl rfl
  · exact CFrame.refl ex s

theorem push_cframe (ex : Option ReqId) (s : State) (t : Token) (c : ConnId) : CFrame ex (push s t c) s := by
  unfold push
  simp only []
  have h1 := (pushLoop_cframe ex t c ((clearMarker s t c).waiting t) (clearMarker s t c)).trans (clearMarker_cframe ex s t c)
  generalize pushLoop (clearMarker s t c) t c ((clearMarker s t c).waiting t) = pl at h1
  obtain ⟨x1, d⟩ := pl
  simp only [] at h1 ⊢
  split
  · exact h1
  · split
    · refine CFrame.trans ?_ h1; exact CFrame.of_eq rfl rfl
    · split
      · exact h1
      · refine CFrame.trans ?_ h1; exact CFrame.of_eq rfl rfl

theorem dropSenders_cframe (ex : Option ReqId) : ∀ (l : List ReqId) (s : State), CFrame ex (dropSenders s l) s
  | [], s => CFrame.refl ex s
  | r0 :: rest, s => by
    simp only [dropSenders]
    refine (dropSenders_cframe ex rest _).trans ?_
    split
    · exact CFrame.setGood s r0 .txGone (by intro h; rcases h with h | h <;> cases h)
    · exact CFrame.refl ex s

theorem cancelConnection_cframe (ex : Option ReqId) (s : State) (t : Token) : CFrame ex (cancelConnection s t) s := by
  unfold cancelConnection; split
  · simp only []
    have f2 := dropSenders_cframe ex (s.waiting t) ({ s with connecting := s.connecting.erase t } : State)
    refine CFrame.trans ?_ (f2.trans (CFrame.of_eq rfl rfl)); exact CFrame.of_eq rfl rfl
  · exact CFrame.refl ex s

theorem cancelIfOwner_cframe (ex : Option ReqId) (s : State) (c : Checkout) : CFrame ex (cancelIfOwner s c) s := by
  unfold cancelIfOwner; split
  · exact cancelConnection_cframe ex s _
  · exact CFrame.refl ex s

theorem returnUnused_cframe (ex : Option ReqId) (s : State) (c : Checkout) : CFrame ex (returnUnused s c) s := by
  unfold returnUnused
  split
  · split
    · exact push_cframe ex _ _ _
    · split
      · exact CFrame.refl ex s
      · exact CFrame.of_eq rfl rfl
  · exact CFrame.refl ex s

theorem startDial_cframe (ex : Option ReqId) (s : State) (r : ReqId) : CFrame ex (startDial s r) s := by
  unfold startDial; split
  · exact CFrame.refl ex s
  · exact CFrame.of_eq rfl rfl

theorem setConn_cframe (ex : Option ReqId) (s : State) (c : ConnId) (f : Conn → Conn) : CFrame ex (setConn s c f) s := by
  unfold setConn; split
  · exact CFrame.of_eq rfl rfl
  · exact CFrame.refl ex s

theorem registerConnected_cframe (ex : Option ReqId) (s : State) (c : Checkout) (cid : ConnId) : CFrame ex (registerConnected s c cid).1 s := by
  unfold registerConnected; split
  · exact push_cframe ex _ _ _
  · exact CFrame.refl ex s

theorem tokenOf_cframe (ex : Option ReqId) (s : State) (k : KeyId) : CFrame ex (tokenOf s k).1 s := by
  unfold tokenOf; split
  · exact CFrame.refl ex s
  · exact CFrame.of_eq rfl rfl

/-! ### issue -/

theorem issueFound_waitChan {s : State} (h : WaitChan s) (r : ReqId) (k : KeyId) (mux : Bool) (t : Token) (c : ConnId) :
    WaitChan (issueFound s r k mux t c) := by
  unfold issueFound
  simp only []
  have f1 : CFrame (some r) (if canShare s c then { s with idle := upd s.idle t ((c, s.now) :: s.idle t) } else s) s := by
    split
    · exact CFrame.of_eq rfl rfl
    · exact CFrame.refl _ s
  generalize (if canShare s c then { s with idle := upd s.idle t ((c, s.now) :: s.idle t) } else s) = s1 at f1
  have f2 : CFrame (some r) { s1 with chan := upd s1.chan r .txGone } s := (CFrame.setOwn s1 r .txGone).trans f1
  refine h.frameEx r ((CFrame.setCoOwn _ r _).trans f2) ?_
  intro c' hc' hp
  simp only [upd_same, Option.some.injEq] at hc'
  subst hc'
  rcases hp with ⟨_, hi, _⟩; cases hi

theorem issueMissing_waitChan {s : State} (h : WaitChan s) (r : ReqId) (k : KeyId) (mux : Bool) (t : Token) :
    WaitChan (issueMissing s r k mux t) := by
  unfold issueMissing
  simp only []
  have key : ∀ (chk : Checkout) (conn : List Token) (att : Nat) (own : Token → Nat),
      WaitChan { s with waiting := upd s.waiting t (s.waiting t ++ [r]), chan := upd s.chan r .empty,
                        connecting := conn, attempts := att, owner := own, co := upd s.co r (some chk) } := by
    intro chk conn att own
    have f0 : CFrame (some r) { s with chan := upd s.chan r .empty } s := CFrame.setOwn s r .empty
    refine h.frameEx r ?_ ?_
    · refine CFrame.trans ?_ f0
      refine ⟨fun x cx hx hc hp => ?_, fun x _ hb => hb⟩
      have e : x ≠ r := fun e => hx (by rw [e])
      exact ⟨cx, by simpa [upd, e] using hc, hp⟩
    · intro _ _ _ hb
      simp only [upd_same] at hb
      rcases hb with hb | hb <;> cases hb
  split
  · exact key _ _ _ _
  · split <;> exact key _ _ _ _

theorem issue_waitChan {s : State} (h : WaitChan s) (r : ReqId) (k : KeyId) (mux : Bool) : WaitChan (issue s r k mux) := by
  unfold issue
  have f0 := tokenOf_cframe none s k
  generalize tokenOf s k = tk at f0
  obtain ⟨s0, t⟩ := tk
  simp only [] at f0 ⊢
  have f2 : CFrame none (noteDropped { s0 with idle := upd s0.idle t (idlePop s0 (s0.idle t)).2.1 } (idlePop s0 (s0.idle t)).2.2) s0 :=
    CFrame.of_eq rfl rfl
  have h2 := h.frame (f2.trans f0)
  cases hp : (idlePop s0 (s0.idle t)).1 with
  | none => simp only []; exact issueMissing_waitChan h2 r k mux t
  | some c => simp only []; exact issueFound_waitChan h2 r k mux t c

end Hd.Pool

namespace Hd.Pool

/-! ### polling -/

/-- `Waiting::poll`: when it says "keep waiting" nothing has changed; otherwise the checkout has stopped
    listening as a pure waiter -/
theorem pollWaiter_wc (s : State) (r : ReqId) (c : Checkout) :
    CFrame (some r) (pollWaiter s r c).1 s ∧
    ((pollWaiter s r c).2.2 = none → (pollWaiter s r c).1 = s ∧ (pollWaiter s r c).2.1 = c) ∧
    ((pollWaiter s r c).2.2 ≠ none → (pollWaiter s r c).2.1.waiter ≠ .connecting) := by
  unfold pollWaiter
  cases hw : c.waiter with
  | idle =>
    simp only []
    split
    · exact ⟨CFrame.setOwn s r .rxGone, (fun h => by cases h), (fun _ h => by cases h)⟩
    · exact ⟨CFrame.refl _ s, (fun h => by cases h), (fun _ h => by cases h)⟩
    · exact ⟨CFrame.refl _ s, (fun h => by cases h), (fun _ h => by rw [hw] at h; cases h)⟩
  | connecting =>
    simp only []
    split
    · exact ⟨CFrame.setOwn s r .rxGone, (fun h => by cases h), (fun _ h => by cases h)⟩
    · exact ⟨CFrame.refl _ s, (fun h => by cases h), (fun _ h => by cases h)⟩
    · exact ⟨CFrame.refl _ s, (fun _ => ⟨rfl, rfl⟩), (fun h => absurd rfl h)⟩
  | noPool => exact ⟨CFrame.refl _ s, (fun h => by cases h), (fun _ h => by rw [hw] at h; cases h)⟩

/-- one poll of a checkout: other requests are unaffected, and if the result is still a live pure waiter
    then so was the checkout before and its channel is untouched -/
theorem pollCheckout_wc (s : State) (r : ReqId) (c : Checkout) :
    CFrame (some r) (pollCheckout s r c).1 s ∧
    (PureLive (pollCheckout s r c).2.1 → PureLive c ∧ (pollCheckout s r c).1.chan r = s.chan r) := by
  obtain ⟨f1, hnone, hsome⟩ := pollWaiter_wc s r c
  unfold pollCheckout
  generalize pollWaiter s r c = pw at f1 hnone hsome
  obtain ⟨s1, cw, w⟩ := pw
  simp only [] at f1 hnone hsome ⊢
  cases w with
  | none =>
    obtain ⟨e1, e2⟩ := hnone rfl
    subst e1; subst e2
    exact ⟨f1, fun hp => ⟨hp, rfl⟩⟩
  | some w' =>
    have hnw : cw.waiter ≠ .connecting := hsome (by intro h; cases h)
    have notPure : ∀ c' : Checkout, c'.waiter = cw.waiter ∨ c'.waiter = .noPool → PureLive c' → PureLive c ∧ False := by
      intro c' hc' hp
      have hw := hp.2.2
      rcases hc' with hc' | hc'
      · rw [hc'] at hw; exact absurd hw hnw
      · rw [hc'] at hw; cases hw
    have fin : ∀ (sx : State) (c' : Checkout), CFrame (some r) sx s → (c'.waiter = cw.waiter ∨ c'.waiter = .noPool) →
        CFrame (some r) sx s ∧ (PureLive c' → PureLive c ∧ sx.chan r = s.chan r) :=
      fun sx c' f hc' => ⟨f, fun hp => (notPure c' hc' hp).2.elim⟩
    cases w' with
    | some p => exact fin _ _ f1 (Or.inl rfl)
    | none =>
      simp only []
      cases hin : cw.inner with
      | waiting => exact fin _ _ f1 (Or.inl rfl)
      | connected =>
        simp only []
        cases hcn : cw.conn with
        | none => exact fin _ _ f1 (Or.inl rfl)
        | some cid => exact fin _ _ ((dropRx_cframe s1 r).trans f1) (Or.inr rfl)
      | connecting | delayDrop | delayed =>
        simp only []
        have f2 := (startDial_cframe (some r) s1 r).trans f1
        cases hout : (s1.dial r).outcome with
        | none => exact fin _ _ f2 (Or.inl rfl)
        | some out =>
          simp only []
          have f3 := (dropRx_cframe (startDial s1 r) r).trans f2
          cases out with
          | failConnect => exact fin _ _ f3 (Or.inr rfl)
          | failHandshake => exact fin _ _ f3 (Or.inr rfl)
          | ok alpn =>
            simp only []
            have f4 : CFrame (some r) (newConn (dropRx (startDial s1 r) r) { cw with inner := .connected, waiter := .noPool } alpn).1 s := by
              refine CFrame.trans ?_ f3; exact CFrame.of_eq rfl rfl
            generalize newConn (dropRx (startDial s1 r) r) { cw with inner := .connected, waiter := .noPool } alpn = nc at f4
            obtain ⟨s4, cid⟩ := nc
            simp only [] at f4 ⊢
            have f5 := (registerConnected_cframe (some r) s4 { cw with inner := .connected, waiter := .noPool } cid).trans f4
            generalize registerConnected s4 { cw with inner := .connected, waiter := .noPool } cid = rc at f5
            obtain ⟨s5, p⟩ := rc
            exact fin _ _ f5 (Or.inr rfl)

/-- a poll followed by writing the checkout back -/
theorem poll_commit_waitChan {s : State} (h : WaitChan s) (r : ReqId) (c : Checkout) (hco : s.co r = some c) :
    WaitChan { (pollCheckout s r c).1 with co := upd (pollCheckout s r c).1.co r (some (pollCheckout s r c).2.1) } := by
  obtain ⟨f1, hp1⟩ := pollCheckout_wc s r c
  refine h.frameEx r ((CFrame.setCoOwn _ r _).trans f1) ?_
  intro c' hc' hp hb
  simp only [upd_same, Option.some.injEq] at hc'
  subst hc'
  obtain ⟨hpc, hch⟩ := hp1 hp
  have hb' : BadChan ((pollCheckout s r c).1.chan r) := hb
  rw [hch] at hb'
  exact h r c hco hpc hb'

/-! ### dropping a checkout -/

theorem dropCheckout_waitChan {s : State} (h : WaitChan s) (r : ReqId) : WaitChan (dropCheckout s r) := by
  unfold dropCheckout
  cases hco : s.co r with
  | none => exact h
  | some c =>
    simp only []
    split
    · exact h
    · have f0 : CFrame (some r) (takeConn s r c) s := by unfold takeConn; exact CFrame.setCoOwn s r _
      have f1 := (returnUnused_cframe (some r) (takeConn s r c) c).trans f0
      generalize returnUnused (takeConn s r c) c = s1 at f1
      have dead : ∀ (sx : State) (chk : Checkout), CFrame (some r) sx s → chk.alive = false →
          WaitChan { sx with co := upd sx.co r (some chk) } := by
        intro sx chk f ha
        refine h.frameEx r ((CFrame.setCoOwn sx r _).trans f) ?_
        intro c' hc' hp
        simp only [upd_same, Option.some.injEq] at hc'
        subst hc'
        have := hp.1; rw [ha] at this; cases this
      split
      · exact dead _ _ ((dropRx_cframe _ r).trans ((spawn_cframe (some r) s1 (.delayed r)).trans f1)) rfl
      · exact dead _ _ ((dropRx_cframe _ r).trans ((cancelIfOwner_cframe (some r) s1 c).trans f1)) rfl

/-! ### tasks -/

theorem runWhenReady_waitChan {s : State} (h : WaitChan s) (i : Nat) (c : ConnId) (t : Token) (hp : Bool) :
    WaitChan (runWhenReady s i c t hp) := by
  have h1 : WaitChan (removeTask s i) := h.frame (CFrame.of_eq rfl rfl)
  unfold runWhenReady
  split
  · exact h1
  · split
    · exact h1.frame (CFrame.of_eq rfl rfl)
    · split
      · exact h
      · simp only []
        split
        · exact h1.frame (push_cframe none _ _ _)
        · exact h1.frame (CFrame.of_eq rfl rfl)

theorem runDelayed_waitChan {s : State} (h : WaitChan s) (i : Nat) (r : ReqId) : WaitChan (runDelayed s i r) := by
  unfold runDelayed
  cases hco : s.co r with
  | none => exact h.frame (CFrame.of_eq rfl rfl)
  | some c =>
    simp only []
    have h2 := poll_commit_waitChan h r c hco
    generalize pollCheckout s r c = res at h2
    obtain ⟨s1, c', pr⟩ := res
    simp only [] at h2 ⊢
    have tail : WaitChan { (cancelIfOwner (removeTask { s1 with co := upd s1.co r (some c') } i) c') with
        co := upd (cancelIfOwner (removeTask { s1 with co := upd s1.co r (some c') } i) c').co r (some { c' with marker := false }) } := by
      have f3 : CFrame none (removeTask { s1 with co := upd s1.co r (some c') } i) { s1 with co := upd s1.co r (some c') } :=
        CFrame.of_eq rfl rfl
      have f4 := (cancelIfOwner_cframe none (removeTask { s1 with co := upd s1.co r (some c') } i) c').trans f3
      have h4 := h2.frame f4
      have hr4 : (cancelIfOwner (removeTask { s1 with co := upd s1.co r (some c') } i) c').co r = some c' := by
        rw [cancelIfOwner_co]; show upd s1.co r (some c') r = some c'; simp
      exact h4.frame (CFrame.setCoSame _ r c' _ hr4 (fun hp => hp))
    cases pr with
    | pending => exact h2
    | got p => exact tail.frame (dropPooled_cframe none _ p)
    | err k => exact tail
    | panic => exact tail

theorem runTask_waitChan {s : State} (h : WaitChan s) (i : Nat) : WaitChan (runTask s i) := by
  unfold runTask
  cases ht : taskOf s i with
  | none => exact h
  | some t =>
    cases t with
    | whenReady c tk hp => exact runWhenReady_waitChan h i c tk hp
    | delayed r => exact runDelayed_waitChan h i r

theorem runAll_waitChan : ∀ (fuel : Nat) (s : State), WaitChan s → WaitChan (runAll fuel s)
  | 0, _, h => h
  | fuel + 1, s, h => by
    simp only [runAll]
    split
    · exact h
    · rename_i i q hq
      have hq' : WaitChan { s with runq := q } := h.frame (CFrame.of_eq rfl rfl)
      exact runAll_waitChan fuel _ (runTask_waitChan hq' i)

theorem abortTask_waitChan {s : State} (h : WaitChan s) (i : Nat) : WaitChan (abortTask s i) := by
  unfold abortTask
  cases ht : taskOf s i with
  | none => exact h
  | some t =>
    cases t with
    | whenReady c tk hp => exact h.frame (CFrame.of_eq rfl rfl)
    | delayed r =>
      simp only []
      cases hco : s.co r with
      | none => exact h.frame (CFrame.of_eq rfl rfl)
      | some c =>
        simp only []
        have f3 : CFrame none (removeTask s i) s := CFrame.of_eq rfl rfl
        have f4 := (cancelIfOwner_cframe none (removeTask s i) c).trans f3
        have h4 := h.frame f4
        have hr4 : (cancelIfOwner (removeTask s i) c).co r = some c := by rw [cancelIfOwner_co]; exact hco
        exact h4.frame (CFrame.setCoSame _ r c _ hr4 (fun hp => hp))

theorem abortAll_waitChan : ∀ (fuel : Nat) (s : State), WaitChan s → WaitChan (abortAll fuel s)
  | 0, _, h => h
  | fuel + 1, s, h => by
    simp only [abortAll]
    split
    · exact h.frame (CFrame.of_eq rfl rfl)
    · exact abortAll_waitChan fuel _ (abortTask_waitChan h _)

theorem step_waitChan (s : State) (op : Op) (h : WaitChan s) : WaitChan (step s op).1 := by
  cases op with
  | issue r k mux =>
    simp only [step]
    cases hco : s.co r with
    | some _ => exact h
    | none => exact issue_waitChan h r k mux
  | poll r =>
    simp only [step]
    cases hco : s.co r with
    | none => exact h
    | some c =>
      simp only []
      split
      · exact h
      · have h2 := poll_commit_waitChan h r c hco
        generalize pollCheckout s r c = res at h2
        obtain ⟨s1, c', pr⟩ := res
        simp only [] at h2 ⊢
        cases pr with
        | pending => exact h2
        | err k => exact dropCheckout_waitChan h2 r
        | panic => exact dropCheckout_waitChan h2 r
        | got p =>
          simp only []
          have h3 : WaitChan { s1 with co := upd s1.co r (some c'), held := upd s1.held r (some p) } :=
            h2.frame (CFrame.of_eq rfl rfl)
          have h4 : WaitChan (if canShare { s1 with co := upd s1.co r (some c'), held := upd s1.held r (some p) } p.conn
              then { s1 with co := upd s1.co r (some c'), held := upd s1.held r (some p) }
              else setConn { s1 with co := upd s1.co r (some c'), held := upd s1.held r (some p) } p.conn (fun k => { k with busy := true })) := by
            split
            · exact h3
            · exact h3.frame (setConn_cframe none _ _ _)
          exact dropCheckout_waitChan h4 r
  | cancel r =>
    simp only [step]
    cases hh : s.held r with
    | some p =>
      simp only []
      exact (h.frame (CFrame.of_eq (s' := { s with held := upd s.held r none }) rfl rfl)).frame (dropPooled_cframe none _ p)
    | none =>
      simp only []
      cases hco : s.co r with
      | none => exact h
      | some c =>
        simp only []
        split
        · exact dropCheckout_waitChan h r
        · exact h
  | cancelOff r =>
    simp only [step]
    cases hh : s.held r with
    | some p =>
      simp only []
      exact abortTask_waitChan ((h.frame (CFrame.of_eq (s' := { s with held := upd s.held r none }) rfl rfl)).frame (dropPooled_cframe none _ p)) _
    | none => exact h
  | dialDone r o =>
    simp only [step]
    split
    · exact h.frame (CFrame.of_eq rfl rfl)
    · exact h
  | finish r =>
    simp only [step]
    cases hh : s.held r with
    | some p =>
      simp only []
      exact (h.frame (CFrame.of_eq (s' := { s with held := upd s.held r none }) rfl rfl)).frame (dropPooled_cframe none _ p)
    | none => exact h
  | connReady c =>
    simp only [step]
    split
    · exact (h.frame (setConn_cframe none s c _)).frame (CFrame.of_eq rfl rfl)
    · exact h
  | connClose c =>
    simp only [step]
    split
    · exact (h.frame (setConn_cframe none s c _)).frame (CFrame.of_eq rfl rfl)
    · exact h
  | connFail c =>
    simp only [step]
    split
    · split
      · exact (h.frame (setConn_cframe none s c _)).frame (CFrame.of_eq rfl rfl)
      · exact h
    · exact h
  | run => exact runAll_waitChan _ s h
  | tick ms => exact h.frame (CFrame.of_eq rfl rfl)
  | mark => exact h
  | shutdown => exact abortAll_waitChan _ s h

theorem run_waitChan : ∀ (ops : List Op) (s : State), WaitChan s → WaitChan (run s ops).1
  | [], _, h => h
  | op :: ops, s, h => by
    simp only [run]
    exact run_waitChan ops _ (step_waitChan s op h)

end Hd.Pool
