import HdModel.Lemmas.Eyeballs2
/-! Stage-3 invariant of the happy-eyeballs model: pacing of the start trace. -/
namespace Hd.Eyeballs

/-- Why may candidate number `k` be started at `b.2`, given that its predecessor was started at `a.2`
    and `prev` are all earlier starts? -/
def Reason (c : Cfg) (n : Nat) (fails : List (Nat × Nat)) (prev : List (Nat × Nat)) (a b : Nat × Nat) : Prop :=
  (prev.length < c.conc.getD n ∧ a.2 = 0 ∧ b.2 = 0)                           -- inside the initial batch
  ∨ (b.2 = a.2 ∧ ∀ st ∈ prev, ∃ t, (st.1, t) ∈ fails ∧ t ≤ b.2)              -- nothing left running
  ∨ (a.2 ≤ b.2 ∧ ∃ p ∈ fails, p.2 = b.2 ∧ ∃ st ∈ prev, st.1 = p.1)            -- a running attempt failed then
  ∨ (∃ d, c.delay = some d ∧ b.2 = a.2 + d)                                    -- the stagger delay elapsed

def PacedFrom (c : Cfg) (n : Nat) (fails : List (Nat × Nat)) :
    List (Nat × Nat) → List (Nat × Nat) → Prop
  | _, [] => True
  | prev, b :: rest =>
    (match prev.getLast? with
     | none => b.2 = 0
     | some a => Reason c n fails prev a b ∧ (∀ d, c.delay = some d → b.2 ≤ a.2 + d)) ∧
    PacedFrom c n fails (prev ++ [b]) rest

def Paced (c : Cfg) (n : Nat) (fails starts : List (Nat × Nat)) : Prop := PacedFrom c n fails [] starts

theorem reason_mono {c : Cfg} {n : Nat} {f f' : List (Nat × Nat)} (hsub : ∀ p ∈ f, p ∈ f')
    {prev : List (Nat × Nat)} {a b : Nat × Nat} (h : Reason c n f prev a b) : Reason c n f' prev a b := by
  rcases h with h | ⟨e, h⟩ | ⟨e, p, hp, h⟩ | h
  · exact Or.inl h
  · refine Or.inr (Or.inl ⟨e, ?_⟩)
    intro st hst; obtain ⟨t, ht, hle⟩ := h st hst; exact ⟨t, hsub _ ht, hle⟩
  · exact Or.inr (Or.inr (Or.inl ⟨e, p, hsub _ hp, h⟩))
  · exact Or.inr (Or.inr (Or.inr h))

theorem pacedFrom_mono {c : Cfg} {n : Nat} {f f' : List (Nat × Nat)} (hsub : ∀ p ∈ f, p ∈ f')
    (prev rest : List (Nat × Nat)) (h : PacedFrom c n f prev rest) : PacedFrom c n f' prev rest := by
  induction rest generalizing prev with
  | nil => trivial
  | cons b rest ih =>
    obtain ⟨h1, h2⟩ := h
    refine ⟨?_, ih _ h2⟩
    split
    · rename_i he; simp only [he] at h1; exact h1
    · rename_i a he; simp only [he] at h1; exact ⟨reason_mono hsub h1.1, h1.2⟩

theorem pacedFrom_append {c : Cfg} {n : Nat} {f : List (Nat × Nat)} (prev rest : List (Nat × Nat)) (b : Nat × Nat) :
    PacedFrom c n f prev (rest ++ [b]) ↔
      PacedFrom c n f prev rest ∧
      (match (prev ++ rest).getLast? with
       | none => b.2 = 0
       | some a => Reason c n f (prev ++ rest) a b ∧ (∀ d, c.delay = some d → b.2 ≤ a.2 + d)) := by
  induction rest generalizing prev with
  | nil => simp [PacedFrom]
  | cons x rest ih =>
    simp only [List.cons_append, PacedFrom]
    rw [ih (prev ++ [x])]
    simp [List.append_assoc, and_assoc]

/-- Pacing invariant: the trace so far is paced, and while candidates remain queued the clock
    stands at the instant of the latest start. -/
structure Inv3 (c : Cfg) (n : Nat) (s : St) : Prop where
  paced : Paced c n s.fails s.starts
  atLast : s.queue ≠ [] → ∀ st, s.starts.getLast? = some st → st.2 = s.now
  failStart : ∀ p ∈ s.fails, (∃ st ∈ s.starts, st.2 = p.2 ∧ p.1 < st.1) ∨
    (∀ i, i < n → ∃ st ∈ s.starts, st.1 = i ∧ st.2 ≤ p.2)

theorem nextEvent_completion_le {rs : List Running} {te tf j : Nat}
    (h : nextEvent rs (some te) = .completion tf j) : tf ≤ te := by
  unfold nextEvent at h
  split at h
  · rename_i tf' j' te' hE hT
    cases hT
    split at h
    · simp at h; obtain ⟨rfl, rfl⟩ := h; assumption
    · simp at h
  · rename_i hT; cases hT
  · simp at h
  · simp at h

def FailStart (n : Nat) (fails starts : List (Nat × Nat)) : Prop :=
  ∀ p ∈ fails, (∃ st ∈ starts, st.2 = p.2 ∧ p.1 < st.1) ∨
    (∀ i, i < n → ∃ st ∈ starts, st.1 = i ∧ st.2 ≤ p.2)

theorem failStart_mono {n : Nat} {fails starts starts' : List (Nat × Nat)} (hsub : ∀ x ∈ starts, x ∈ starts')
    (h : FailStart n fails starts) : FailStart n fails starts' := by
  intro p hp
  rcases h p hp with ⟨st, hst, h1, h2⟩ | hall
  · exact Or.inl ⟨st, hsub _ hst, h1, h2⟩
  · refine Or.inr ?_
    intro i hi; obtain ⟨st, hst, h1, h2⟩ := hall i hi
    exact ⟨st, hsub _ hst, h1, h2⟩

/-- Pushing one more candidate, given the justification for it. Only the trace components of the
    pre-state matter (its clock may have moved since the previous start). -/
theorem inv3_start' {c : Cfg} {n : Nat} {atts : List Attempt} {s : St} {f : Nat} {q : List Nat}
    (hp : Paced c n s.fails s.starts)
    (hf : FailStart n s.fails (s.starts ++ [(f, s.now)]))
    (hnew : match s.starts.getLast? with
      | none => s.now = 0
      | some a => Reason c n s.fails s.starts a (f, s.now) ∧ (∀ d, c.delay = some d → s.now ≤ a.2 + d)) :
    Inv3 c n (start atts { s with queue := q } f) := by
  constructor
  · simp only [start, Paced]
    rw [pacedFrom_append]
    exact ⟨hp, by simpa using hnew⟩
  · intro _ st hst
    simp [start] at hst
    rw [← hst]; simp [start]
  · exact hf

theorem inv3_start {c : Cfg} {n : Nat} {atts : List Attempt} {s : St} {f : Nat} {q : List Nat}
    (h : Inv3 c n s)
    (hnew : match s.starts.getLast? with
      | none => s.now = 0
      | some a => Reason c n s.fails s.starts a (f, s.now) ∧ (∀ d, c.delay = some d → s.now ≤ a.2 + d)) :
    Inv3 c n (start atts { s with queue := q } f) :=
  inv3_start' h.paced (failStart_mono (by intro x hx; simp [hx]) h.failStart) hnew

theorem inv3_init (c : Cfg) (n : Nat) : Inv3 c n (init n) := by
  constructor <;> simp [init, Paced, PacedFrom]

theorem inv3_startN {c : Cfg} {n : Nat} {atts : List Attempt} (k : Nat) {s : St}
    (h : Inv3 c n s) (hnow : s.now = 0) (hz : ∀ st ∈ s.starts, st.2 = 0)
    (hlen : s.starts.length + k ≤ c.conc.getD n) :
    Inv3 c n (startN atts k s) ∧ (startN atts k s).now = 0 := by
  induction k generalizing s with
  | zero => exact ⟨by simpa [startN] using h, by simpa [startN] using hnow⟩
  | succ k ih =>
    unfold startN
    split
    · exact ⟨h, hnow⟩
    · rename_i i q hq
      apply ih
      · apply inv3_start h
        split
        · exact hnow
        · rename_i a ha
          have ham : a ∈ s.starts := List.mem_of_getLast? ha
          refine ⟨Or.inl ⟨by omega, hz a ham, hnow⟩, ?_⟩
          intro d _; rw [hnow]; omega
      · simp [start, hnow]
      · intro st hst
        simp [start] at hst
        rcases hst with hst | rfl
        · exact hz st hst
        · exact hnow
      · simp [start]; omega

theorem order_lt {c : Cfg} {n : Nat} {s : St} (h1 : Inv1 c n s) {st : Nat × Nat} {f : Nat}
    (hst : st ∈ s.starts) (hf : f ∈ s.queue) : st.1 < f := by
  have hpw : (s.starts.map (·.1) ++ s.queue).Pairwise (· < ·) := by
    rw [h1.order]; exact List.pairwise_lt_range
  exact (List.pairwise_append.mp hpw).2.2 st.1 (List.mem_map.mpr ⟨st, hst, rfl⟩) f hf

theorem last_now {c : Cfg} {n : Nat} {s : St} (h3 : Inv3 c n s) {f : Nat} {q : List Nat}
    (hq : s.queue = f :: q) {a : Nat × Nat} (ha : s.starts.getLast? = some a) : a.2 = s.now :=
  h3.atLast (by rw [hq]; simp) a ha

/-- Start because nothing is running any more (`Eyeball::Exhausted`). -/
theorem inv3_exhausted {c : Cfg} {n : Nat} {atts : List Attempt} {s : St} {f : Nat} {q : List Nat}
    (h2 : Inv2 atts s) (h3 : Inv3 c n s) (hq : s.queue = f :: q) (hr : s.running = []) :
    Inv3 c n (start atts { s with queue := q } f) := by
  apply inv3_start h3
  split
  · rename_i he
    have : s.starts = [] := by
      cases hs : s.starts with
      | nil => rfl
      | cons x xs => rw [hs] at he; simp at he
    exact (h2.fresh this).1
  · rename_i a ha
    have hnow := last_now h3 hq ha
    refine ⟨Or.inr (Or.inl ⟨hnow.symm, ?_⟩), by intro d _; omega⟩
    intro st hst
    rcases h2.acct st hst with ⟨r, hr', _⟩ | ⟨t, ht⟩
    · rw [hr] at hr'; simp at hr'
    · exact ⟨t, ht, (h2.failsOk _ ht).2.2⟩

/-- Start at the instant a running attempt fails. -/
theorem inv3_failstart {c : Cfg} {n : Nat} {atts : List Attempt} {s : St} {f : Nat} {q : List Nat}
    {tf j : Nat} (h1 : Inv1 c n s) (h2 : Inv2 atts s) (h3 : Inv3 c n s) (hq : s.queue = f :: q)
    (hev : nextEvent s.running (c.delay.map (s.now + ·)) = .completion tf j) :
    Inv3 c n (start atts { (recordFail (complete atts s j tf) j) with queue := q } f) := by
  have he := nextEvent_completion hev
  obtain ⟨r, hr, hidx, hfin⟩ := earliest_mem he
  have hnow : s.now ≤ tf := h1.due r hr tf hfin
  obtain ⟨st0, hst0, hs1, _⟩ := h2.runStarted r hr
  have hsub : ∀ p ∈ s.fails, p ∈ s.fails ++ [(j, tf)] := by intro p hp; simp [hp]
  apply inv3_start' (s := { (recordFail (complete atts s j tf) j) with queue := q })
  · exact pacedFrom_mono hsub _ _ h3.paced
  · intro p hp
    simp only [recordFail, complete, List.mem_append, List.mem_singleton] at hp
    rcases hp with hp | rfl
    · exact failStart_mono (by intro x hx; simp [recordFail, complete, hx]) h3.failStart p hp
    · refine Or.inl ⟨(f, tf), by simp [recordFail, complete], rfl, ?_⟩
      have := order_lt h1 hst0 (by rw [hq]; simp : f ∈ s.queue)
      rw [hs1, hidx] at this; exact this
  · simp only [recordFail, complete]
    split
    · rename_i he'
      rw [show s.starts = [] from by
        cases hs : s.starts with
        | nil => rfl
        | cons x xs => rw [hs] at he'; simp at he'] at hst0
      simp at hst0
    · rename_i a ha
      have hlast := last_now h3 hq ha
      refine ⟨Or.inr (Or.inr (Or.inl ⟨by omega, (j, tf), by simp, rfl, st0, hst0, by rw [hs1, hidx]⟩)), ?_⟩
      intro d hd
      rw [hd] at hev
      have := nextEvent_completion_le hev
      simp at this ⊢; omega

/-- Start when the stagger delay has elapsed. -/
theorem inv3_tickstart {c : Cfg} {n : Nat} {atts : List Attempt} {s : St} {f : Nat} {q : List Nat}
    {d : Nat} (h2 : Inv2 atts s) (h3 : Inv3 c n s) (hq : s.queue = f :: q) (hd : c.delay = some d)
    {r0 : Running} {rs : List Running} (hrun : s.running = r0 :: rs) :
    Inv3 c n (start atts { s with now := s.now + d, queue := q } f) := by
  apply inv3_start' (s := { s with now := s.now + d, queue := q })
  · exact h3.paced
  · exact failStart_mono (by intro x hx; simp [hx]) h3.failStart
  · simp only
    split
    · rename_i he'
      exfalso
      have : s.starts = [] := by
        cases hs : s.starts with
        | nil => rfl
        | cons x xs => rw [hs] at he'; simp at he'
      have := (h2.fresh this).2.1
      rw [hrun] at this; cases this
    · rename_i a ha
      have hlast := last_now h3 hq ha
      refine ⟨Or.inr (Or.inr (Or.inr ⟨d, hd, by simp; omega⟩)), ?_⟩
      intro d' hd'; rw [hd] at hd'; cases hd'; omega

/-- A failure while draining (nothing left to start). -/
theorem inv3_drainfail {c : Cfg} {n : Nat} {atts : List Attempt} {s : St} {tf j : Nat}
    (h1 : Inv1 c n s) (h3 : Inv3 c n s) (hq : s.queue = [])
    (he : earliest s.running = some (tf, j)) :
    Inv3 c n (recordFail (complete atts s j tf) j) := by
  obtain ⟨r, hr, _, hfin⟩ := earliest_mem he
  have hnow : s.now ≤ tf := h1.due r hr tf hfin
  constructor
  · exact pacedFrom_mono (by intro p hp; simp [recordFail, complete, hp]) _ _ h3.paced
  · intro hne; simp [recordFail, complete, hq] at hne
  · intro p hp
    simp only [recordFail, complete, List.mem_append, List.mem_singleton] at hp ⊢
    rcases hp with hp | rfl
    · exact h3.failStart p hp
    · refine Or.inr ?_
      intro i hi
      have ho := h1.order
      rw [hq, List.append_nil] at ho
      have : i ∈ s.starts.map (·.1) := by rw [ho]; simp [hi]
      obtain ⟨st, hst, rfl⟩ := List.mem_map.mp this
      exact ⟨st, hst, rfl, Nat.le_trans (h1.mono st hst) hnow⟩

/-- Stage-3 invariant through the whole loop. -/
theorem loop_inv3 (c : Cfg) (atts : List Attempt) (n : Nat) (fuel : Nat) (s : St)
    (h1 : Inv1 c n s) (h2 : Inv2 atts s) (h3 : Inv3 c n s) :
    Paced c n (loop c atts fuel s).2.fails (loop c atts fuel s).2.starts ∧
    FailStart n (loop c atts fuel s).2.fails (loop c atts fuel s).2.starts := by
  have fin : ∀ {s : St}, Inv3 c n s → Paced c n s.fails s.starts ∧ FailStart n s.fails s.starts :=
    fun h => ⟨h.paced, h.failStart⟩
  induction fuel generalizing s with
  | zero => simpa [loop] using fin h3
  | succ fuel ih =>
    unfold loop
    split
    · rename_i f q hq
      split
      · rename_i hr0
        exact ih _ (inv1_start h1 hq) (inv2_start h2) (inv3_exhausted h2 h3 hq hr0)
      · rename_i r0 rs hrun
        have hne := running_ne_starts_ne h2 hrun
        split
        · rename_i tf j hev
          have he := nextEvent_completion hev
          split
          · exact fin h3
          · rename_i hp
            have hp' : past c tf = false := by simpa using hp
            have hc := inv1_complete (atts := atts) h1 he hp'
            split
            · -- success: the trace is unchanged
              exact ⟨h3.paced, h3.failStart⟩
            · rename_i hout
              apply ih
              · have hq' : (recordFail (complete atts s j tf) j).queue = f :: q := by
                  simp [recordFail, complete, hq]
                exact inv1_start (inv1_recordFail hc) hq'
              · exact inv2_start (inv2_fail h1 h2 he hout)
              · exact inv3_failstart h1 h2 h3 hq hev
        · rename_i te hev
          obtain ⟨htk, hrun'⟩ := nextEvent_tick hev
          obtain ⟨d, hd, rfl⟩ : ∃ d, c.delay = some d ∧ te = s.now + d := by
            cases hd : c.delay with
            | none => simp [hd] at htk
            | some d => simp [hd] at htk; exact ⟨d, rfl, htk.symm⟩
          split
          · exact fin h3
          · rename_i hp
            have hp' : past c (s.now + d) = false := by simpa using hp
            apply ih
            · have ht := inv1_tick (te := s.now + d) h1 (by omega) hp' hrun'
              have hq' : ({ s with now := s.now + d } : St).queue = f :: q := hq
              exact inv1_start ht hq'
            · exact inv2_start (inv2_tick h2 (by omega) hne)
            · exact inv3_tickstart h2 h3 hq hd hrun
        · exact fin h3
    · rename_i hq
      split
      · split <;> exact fin h3
      · split
        · rename_i tf j hev
          have he := nextEvent_completion hev
          split
          · exact fin h3
          · rename_i hp
            have hp' : past c tf = false := by simpa using hp
            have hc := inv1_complete (atts := atts) h1 he hp'
            split
            · exact ⟨h3.paced, h3.failStart⟩
            · rename_i hout
              exact ih _ (inv1_recordFail hc) (inv2_fail h1 h2 he hout) (inv3_drainfail h1 h3 hq he)
        · exact fin h3

end Hd.Eyeballs
