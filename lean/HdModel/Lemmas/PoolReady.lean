import HdModel.Lemmas.PoolLinear
/-! Readiness invariant of the pool model: a non-shareable (HTTP/1) connection that is available to
    be handed out – in an idle list, in a waiter's channel, or popped into a checkout – is not busy:
    it has reported itself ready again after its previous use. -/
namespace Hd.Pool

def NotBusy (s : State) (x : ConnId) : Prop := ∀ k, s.conns x = some k → k.busy = false

/-- `x` is where the pool can hand it out from -/
def Pooledish (s : State) (x : ConnId) : Prop :=
  (∃ t, 0 < idleCount s x t) ∨ (∃ r, At s x (.chan r)) ∨ (∃ r, At s x (.co r))

def Ready (s : State) : Prop := ∀ x, NS s x → Pooledish s x → NotBusy s x

theorem ready_init (cfg : Config) : Ready (init cfg) := by
  intro x _ hp
  rcases hp with ⟨t, ht⟩ | ⟨r, hr⟩ | ⟨r, hr⟩
  · simp [idleCount, init] at ht
  · simp [At, init] at hr
  · simp [At, init] at hr

theorem Pooledish.sub {s s' : State} {x : ConnId} (hs : Sub s' s) (h : Pooledish s' x) : Pooledish s x := by
  rcases h with ⟨t, ht⟩ | ⟨r, hr⟩ | ⟨r, hr⟩
  · exact Or.inl ⟨t, Nat.lt_of_lt_of_le ht (hs.idle x t)⟩
  · exact Or.inr (Or.inl ⟨r, hs.loc x _ hr⟩)
  · exact Or.inr (Or.inr ⟨r, hs.loc x _ hr⟩)

theorem Ready.sub {s s' : State} (h : Ready s) (hs : Sub s' s) (hb : ∀ x, NotBusy s x → NotBusy s' x) : Ready s' :=
  fun x hn hp => hb x (h x (hs.ns x hn) (hp.sub hs))

theorem NotBusy.congr {s s' : State} (hc : s'.conns = s.conns) {x : ConnId} (h : NotBusy s x) : NotBusy s' x := by
  unfold NotBusy; rw [hc]; exact h

theorem Ready.sub_eq {s s' : State} (h : Ready s) (hs : Sub s' s) (hc : s'.conns = s.conns) : Ready s' :=
  h.sub hs (fun _ hx => hx.congr hc)

/-- a handle added at any point location; it must be idle-ready if the location is one the pool hands out from -/
theorem Ready.addAt {s s' : State} {c : ConnId} {l : Loc} (h : Ready s) (ha : AddAt s' s c l) (hc : s'.conns = s.conns)
    (hready : (∀ r, l ≠ .held r) → (∀ i, l ≠ .task i) → NS s c → NotBusy s c) : Ready s' := by
  intro x hn hp
  have hn' := ha.ns x hn
  apply NotBusy.congr hc
  rcases hp with ⟨t, ht⟩ | ⟨r, hr⟩ | ⟨r, hr⟩
  · exact h x hn' (Or.inl ⟨t, Nat.lt_of_lt_of_le ht (ha.idle x t)⟩)
  · rcases ha.loc x _ hr with a | ⟨rfl, rfl⟩
    · exact h x hn' (Or.inr (Or.inl ⟨r, a⟩))
    · exact hready (fun _ e => by cases e) (fun _ e => by cases e) hn'
  · rcases ha.loc x _ hr with a | ⟨rfl, rfl⟩
    · exact h x hn' (Or.inr (Or.inr ⟨r, a⟩))
    · exact hready (fun _ e => by cases e) (fun _ e => by cases e) hn'

theorem Ready.addIdle {s s' : State} {c : ConnId} {t : Token} (h : Ready s) (ha : AddIdle s' s c t) (hc : s'.conns = s.conns)
    (hready : NS s c → NotBusy s c) : Ready s' := by
  intro x hn hp
  have hn' := ha.ns x hn
  apply NotBusy.congr hc
  rcases hp with ⟨t', ht⟩ | ⟨r, hr⟩ | ⟨r, hr⟩
  · by_cases e : x = c
    · subst e; exact hready hn'
    · have := ha.idle x t'
      simp [e] at this
      exact h x hn' (Or.inl ⟨t', by omega⟩)
  · exact h x hn' (Or.inr (Or.inl ⟨r, ha.loc x _ hr⟩))
  · exact h x hn' (Or.inr (Or.inr ⟨r, ha.loc x _ hr⟩))

/-! ### primitives -/

theorem spawn_ready {s : State} (h : Ready s) (t : Task) : Ready (spawn s t) := by
  unfold spawn
  cases t with
  | whenReady c tk hp =>
    exact h.addAt (AddAt.task s.nextTask c tk hp rfl rfl rfl rfl rfl rfl) rfl (fun _ h2 _ => absurd rfl (h2 s.nextTask))
  | delayed r =>
    refine h.sub_eq ?_ rfl
    refine Sub.of_fields rfl (fun _ _ h => h) (fun _ chk _ h hc => ⟨chk, h, hc⟩) (fun _ _ h => h) ?_ (fun _ _ => Nat.le_refl _)
    intro i c t hp hx
    simp only [List.mem_append, List.mem_singleton, Prod.mk.injEq] at hx
    rcases hx with hx | ⟨_, hx⟩
    · exact hx
    · cases hx

theorem dropPooled_ready {s : State} (h : Ready s) (p : Pooled) : Ready (dropPooled s p) := by
  unfold dropPooled; split
  · exact h
  · exact spawn_ready h _

theorem pushLoop_ready (token : Token) (c : ConnId) : ∀ (q : List ReqId) (s : State), Ready s → (NS s c → NotBusy s c) →
    Ready (pushLoop s token c q).1
  | [], s, h, _ => by
    simp only [pushLoop]
    exact h.sub_eq (Sub.of_eq rfl rfl rfl rfl rfl rfl) rfl
  | r :: rest, s, h, hc => by
    simp only [pushLoop]
    split
    · split
      · have h1 : Ready { s with chan := upd s.chan r (.full ⟨c, 0, true⟩) } :=
          h.addAt (AddAt.chan r ⟨c, 0, true⟩ rfl rfl rfl rfl rfl rfl) rfl (fun _ _ => hc)
        exact pushLoop_ready token c rest _ h1 hc
      · have h1 : Ready { s with chan := upd s.chan r (.full ⟨c, token, true⟩) } :=
          h.addAt (AddAt.chan r ⟨c, token, true⟩ rfl rfl rfl rfl rfl rfl) rfl (fun _ _ => hc)
        exact h1.sub_eq (Sub.of_eq rfl rfl rfl rfl rfl rfl) rfl
    · exact pushLoop_ready token c rest s h hc

theorem pushLoop_conns (token : Token) (c : ConnId) : ∀ (q : List ReqId) (s : State), (pushLoop s token c q).1.conns = s.conns
  | [], s => by simp [pushLoop]
  | r :: rest, s => by
    simp only [pushLoop]
    split
    · split
      · rw [pushLoop_conns token c rest]
      · rfl
    · exact pushLoop_conns token c rest s

theorem push_ready {s : State} (h : Ready s) (token : Token) (c : ConnId) (hc : NS s c → NotBusy s c) :
    Ready (push s token c) := by
  unfold push
  obtain ⟨hs0, hc0⟩ := clearMarker_sub s token c
  have h0 := h.sub_eq hs0 hc0
  have hc0' : NS (clearMarker s token c) c → NotBusy (clearMarker s token c) c :=
    fun hn => (hc (hn.congr hc0)).congr hc0
  have h1 := pushLoop_ready token c ((clearMarker s token c).waiting token) _ h0 hc0'
  have c1 := pushLoop_conns token c ((clearMarker s token c).waiting token) (clearMarker s token c)
  simp only []
  generalize pushLoop (clearMarker s token c) token c ((clearMarker s token c).waiting token) = pl at h1 c1
  obtain ⟨s1, delivered⟩ := pl
  simp only [] at h1 c1 ⊢
  have hc1 : NS s1 c → NotBusy s1 c := fun hn => (hc0' (hn.congr c1)).congr c1
  split
  · exact h1
  · split
    · exact h1.addIdle (AddIdle.cons token c s1.now rfl rfl rfl rfl rfl rfl) rfl hc1
    · split
      · exact h1
      · exact h1.sub_eq (Sub.of_eq rfl rfl rfl rfl rfl rfl) rfl

end Hd.Pool

namespace Hd.Pool

theorem issueFound_ready {s : State} (h : Ready s) (r : ReqId) (k : KeyId) (mux : Bool) (t : Token) (c : ConnId)
    (hc : NS s c → NotBusy s c) : Ready (issueFound s r k mux t c) := by
  unfold issueFound
  have h1 : Ready (if canShare s c then { s with idle := upd s.idle t ((c, s.now) :: s.idle t) } else s) ∧
      (if canShare s c then { s with idle := upd s.idle t ((c, s.now) :: s.idle t) } else s).conns = s.conns := by
    split
    · exact ⟨h.addIdle (AddIdle.cons t c s.now rfl rfl rfl rfl rfl rfl) rfl hc, rfl⟩
    · exact ⟨h, rfl⟩
  generalize (if canShare s c then { s with idle := upd s.idle t ((c, s.now) :: s.idle t) } else s) = s1 at h1
  obtain ⟨h1, c1⟩ := h1
  have h2 : Ready { s1 with chan := upd s1.chan r .txGone } := h1.sub_eq (Sub.setChan r .txGone (fun _ e => by cases e)) rfl
  have hc2 : NS { s1 with chan := upd s1.chan r .txGone } c → NotBusy { s1 with chan := upd s1.chan r .txGone } c :=
    fun hn => (hc (hn.congr c1)).congr c1
  have ha : ∀ chk : Checkout, chk.conn = some c →
      AddAt { s1 with chan := upd s1.chan r .txGone, co := upd s1.co r (some chk) }
        { s1 with chan := upd s1.chan r .txGone } c (.co r) :=
    fun chk hcc => AddAt.co r chk c rfl rfl rfl hcc rfl rfl rfl
  exact h2.addAt (ha _ rfl) rfl (fun _ _ => hc2)

theorem issueMissing_ready {s : State} (h : Ready s) (r : ReqId) (k : KeyId) (mux : Bool) (t : Token)
    (hr : s.co r = none) : Ready (issueMissing s r k mux t) := by
  unfold issueMissing
  simp only []
  have key : ∀ (chk : Checkout) (conn : List Token) (att : Nat) (own : Token → Nat), chk.conn = none →
      Sub { s with waiting := upd s.waiting t (s.waiting t ++ [r]), chan := upd s.chan r .empty,
                   connecting := conn, attempts := att, owner := own, co := upd s.co r (some chk) } s := by
    intro chk conn att own hcn
    refine Sub.of_fields rfl ?_ ?_ (fun _ _ h => h) (fun _ _ _ _ h => h) (fun _ _ => Nat.le_refl _)
    · intro r' p hp
      by_cases e : r' = r
      · subst e; simp at hp
      · simpa [upd, e] using hp
    · intro r' chk' c' hc' hcc
      by_cases e : r' = r
      · subst e; simp only [upd_same, Option.some.injEq] at hc'; subst hc'; rw [hcn] at hcc; cases hcc
      · exact ⟨chk', by simpa [upd, e] using hc', hcc⟩
  split
  · exact h.sub_eq (key _ _ _ _ rfl) rfl
  · split <;> exact h.sub_eq (key _ _ _ _ rfl) rfl

theorem issue_ready {s : State} (h : Ready s) (r : ReqId) (k : KeyId) (mux : Bool) (hr : s.co r = none) :
    Ready (issue s r k mux) := by
  unfold issue
  obtain ⟨hs0, hc0, hi0, hco0⟩ := tokenOf_sub s k
  have h0 := h.sub_eq hs0 hc0
  simp only []
  generalize tokenOf s k = tk at hs0 hc0 hi0 hco0 h0
  obtain ⟨s0, t⟩ := tk
  simp only [] at hs0 hc0 hi0 hco0 h0 ⊢
  obtain ⟨hcnt1, hcnt2⟩ := idlePop_count s0 (s0.idle t)
  have hs2 : Sub (noteDropped { s0 with idle := upd s0.idle t (idlePop s0 (s0.idle t)).2.1 } (idlePop s0 (s0.idle t)).2.2) s0 :=
    (noteDropped_sub _ _).trans (Sub.setIdle t _ hcnt1)
  have h2 := h0.sub_eq hs2 rfl
  have hr2 : (noteDropped { s0 with idle := upd s0.idle t (idlePop s0 (s0.idle t)).2.1 } (idlePop s0 (s0.idle t)).2.2).co r = none := by
    show s0.co r = none; rw [hco0]; exact hr
  cases hp : (idlePop s0 (s0.idle t)).1 with
  | none => simp only []; exact issueMissing_ready h2 r k mux t hr2
  | some c =>
    simp only []
    apply issueFound_ready h2 r k mux t c
    intro hn
    have hpos : 0 < idleCount s0 c t := by
      have := hcnt2 c hp
      unfold idleCount; omega
    exact h0 c hn (Or.inl ⟨t, hpos⟩)

theorem dropRx_ready {s : State} (h : Ready s) (r : ReqId) : Ready (dropRx s r) := by
  unfold dropRx
  split
  · exact dropPooled_ready (h.sub_eq (Sub.setChan r .rxGone (fun _ e => by cases e)) rfl) _
  · exact h.sub_eq (Sub.setChan r .rxGone (fun _ e => by cases e)) rfl
  · exact h

theorem returnUnused_ready {s : State} (h : Ready s) (c : Checkout) (hc : ∀ cid, c.conn = some cid → NS s cid → NotBusy s cid) :
    Ready (returnUnused s c) := by
  unfold returnUnused
  split
  · rename_i cid hcid
    split
    · exact push_ready h c.token cid (hc cid hcid)
    · split
      · exact h
      · exact h.sub_eq (Sub.of_eq rfl rfl rfl rfl rfl rfl) rfl
  · exact h

theorem dropCheckout_ready {s : State} (h : Ready s) (r : ReqId) : Ready (dropCheckout s r) := by
  unfold dropCheckout
  cases hco : s.co r with
  | none => exact h
  | some c =>
    simp only []
    split
    · exact h
    · have hs0 : Sub (takeConn s r c) s := Sub.setCoNone r _ rfl
      have h0 : Ready (takeConn s r c) := h.sub_eq hs0 rfl
      have hnb : ∀ cid, c.conn = some cid → NS (takeConn s r c) cid → NotBusy (takeConn s r c) cid := by
        intro cid hcid hn
        exact (h cid hn (Or.inr (Or.inr ⟨r, c, hco, hcid⟩))).congr rfl
      have h1 := returnUnused_ready h0 c hnb
      generalize returnUnused (takeConn s r c) c = s1 at h1
      split
      · have h3 := dropRx_ready (spawn_ready h1 (.delayed r)) r
        generalize dropRx (spawn s1 (.delayed r)) r = s3 at h3
        have hs4 : ∀ chk : Checkout, chk.conn = none → Sub { s3 with co := upd s3.co r (some chk) } s3 :=
          fun chk hc => Sub.setCoNone r chk hc
        exact h3.sub_eq (hs4 _ rfl) rfl
      · obtain ⟨hs2, c2⟩ := cancelIfOwner_sub s1 c
        have h3 := dropRx_ready (h1.sub_eq hs2 c2) r
        generalize dropRx (cancelIfOwner s1 c) r = s3 at h3
        have hs4 : ∀ chk : Checkout, chk.conn = none → Sub { s3 with co := upd s3.co r (some chk) } s3 :=
          fun chk hc => Sub.setCoNone r chk hc
        exact h3.sub_eq (hs4 _ rfl) rfl

end Hd.Pool

namespace Hd.Pool

theorem push_conns (s : State) (token : Token) (c : ConnId) : (push s token c).conns = s.conns := by
  unfold push
  simp only []
  have h0 : (clearMarker s token c).conns = s.conns := (clearMarker_sub s token c).2
  have h1 := pushLoop_conns token c ((clearMarker s token c).waiting token) (clearMarker s token c)
  generalize pushLoop (clearMarker s token c) token c ((clearMarker s token c).waiting token) = pl at h1
  obtain ⟨s1, d⟩ := pl
  simp only [] at h1 ⊢
  split
  · rw [h1, h0]
  · split
    · show s1.conns = s.conns; rw [h1, h0]
    · split
      · rw [h1, h0]
      · show s1.conns = s.conns; rw [h1, h0]

theorem newConn_ready {s : State} (h : Ready s) (c : Checkout) (alpn : Negotiated) (hfresh : s.conns s.nextConn = none) :
    Ready (newConn s c alpn).1 ∧ NotBusy (newConn s c alpn).1 (newConn s c alpn).2 := by
  have hs := newConn_sub s c alpn hfresh
  unfold newConn at hs ⊢
  simp only [] at hs ⊢
  refine ⟨h.sub hs ?_, ?_⟩
  · intro x hx k hk
    by_cases e : x = s.nextConn
    · subst e; simp only [upd_same, Option.some.injEq] at hk; subst hk; rfl
    · simp only [upd, e, if_false] at hk; exact hx k hk
  · intro k hk
    simp only [upd_same, Option.some.injEq] at hk; subst hk; rfl

theorem registerConnected_ready {s : State} (h : Ready s) (c : Checkout) (cid : ConnId) :
    Ready (registerConnected s c cid).1 := by
  unfold registerConnected
  split
  · rename_i hs
    exact push_ready h c.token cid (fun hn => by unfold NS at hn; rw [hs] at hn; cases hn)
  · exact h

/-- result of a poll with the checkout written back: pool-side readiness kept, and what is handed out is not busy -/
theorem pollCheckout_ready {s : State} (h : Ready s) (ho : OriginInv s) (r : ReqId) (c : Checkout) (hco : s.co r = some c) :
    Ready { (pollCheckout s r c).1 with co := upd (pollCheckout s r c).1.co r (some (pollCheckout s r c).2.1) } ∧
    (∀ p, (pollCheckout s r c).2.2 = .got p → NS (pollCheckout s r c).1 p.conn → NotBusy (pollCheckout s r c).1 p.conn) := by
  have hw : Ready (pollWaiter s r c).1 ∧ (pollWaiter s r c).1.co = s.co ∧ (pollWaiter s r c).2.1.conn = c.conn ∧
      (pollWaiter s r c).1.conns = s.conns ∧
      (∀ p, (pollWaiter s r c).2.2 = some (some p) → NS s p.conn → NotBusy s p.conn) := by
    have take : ∀ p, s.chan r = .full p → Ready { s with chan := upd s.chan r .rxGone } ∧ (NS s p.conn → NotBusy s p.conn) :=
      fun p hp => ⟨h.sub_eq (Sub.setChan r .rxGone (fun _ e => by cases e)) rfl,
        fun hn => h p.conn hn (Or.inr (Or.inl ⟨r, p, hp, rfl⟩))⟩
    unfold pollWaiter
    cases c.waiter with
    | idle =>
      simp only []
      split
      · rename_i p hp
        exact ⟨(take p hp).1, rfl, rfl, rfl, fun p' hp' => by simp only [Option.some.injEq] at hp'; subst hp'; exact (take p hp).2⟩
      · exact ⟨h, rfl, rfl, rfl, fun p hp => by simp at hp⟩
      · exact ⟨h, rfl, rfl, rfl, fun p hp => by simp at hp⟩
    | connecting =>
      simp only []
      split
      · rename_i p hp
        exact ⟨(take p hp).1, rfl, rfl, rfl, fun p' hp' => by simp only [Option.some.injEq] at hp'; subst hp'; exact (take p hp).2⟩
      · exact ⟨h, rfl, rfl, rfl, fun p hp => by simp at hp⟩
      · exact ⟨h, rfl, rfl, rfl, fun p hp => by simp at hp⟩
    | noPool => exact ⟨h, rfl, rfl, rfl, fun p hp => by simp at hp⟩
  obtain ⟨ho1, _, _, _⟩ := pollWaiter_inv ho r c hco
  unfold pollCheckout
  generalize pollWaiter s r c = pw at hw ho1
  obtain ⟨s1, cw, w⟩ := pw
  obtain ⟨h1, c1, cn1, cc1, nb1⟩ := hw
  simp only [] at h1 c1 cn1 cc1 nb1 ho1 ⊢
  have hco1 : s1.co r = some c := by rw [c1]; exact hco
  have commit : ∀ (s2 : State) (c' : Checkout), Ready s2 → s2.co r = some c → (∀ cid, c'.conn = some cid → c.conn = some cid) →
      Ready { s2 with co := upd s2.co r (some c') } :=
    fun s2 c' h2 hc2 hcc => h2.sub_eq (Sub.commit hc2 hcc) rfl
  cases w with
  | none => exact ⟨commit s1 cw h1 hco1 (fun cid hc => by rw [cn1] at hc; exact hc), fun p hp => by cases hp⟩
  | some w' =>
    cases w' with
    | some p =>
      refine ⟨commit s1 cw h1 hco1 (fun cid hc => by rw [cn1] at hc; exact hc), ?_⟩
      intro p' hp' hn
      simp only [PollRes.got.injEq] at hp'
      subst hp'
      exact (nb1 p rfl (hn.congr cc1)).congr cc1
    | none =>
      simp only []
      cases hin : cw.inner with
      | waiting => exact ⟨commit s1 cw h1 hco1 (fun cid hc => by rw [cn1] at hc; exact hc), fun p hp => by cases hp⟩
      | connected =>
        simp only []
        cases hcn : cw.conn with
        | none =>
          simp only []
          exact ⟨commit s1 cw h1 hco1 (fun cid hc => by rw [hcn] at hc; cases hc), fun p hp => by cases hp⟩
        | some cid =>
          simp only []
          have h2 := dropRx_ready h1 r
          have hco2 : (dropRx s1 r).co r = some c := by rw [dropRx_co]; exact hco1
          have hcid : c.conn = some cid := by rw [← cn1]; exact hcn
          have hconns2 : (dropRx s1 r).conns = s1.conns := by
            unfold dropRx; split
            · unfold dropPooled; split <;> rfl
            · rfl
            · rfl
          refine ⟨commit _ _ h2 hco2 (fun x hx => by cases hx), ?_⟩
          intro p hp hn
          simp only [PollRes.got.injEq] at hp
          subst hp
          have hpc : ∀ c'' : Checkout, (checkedOut (dropRx s1 r) c'' cid).conn = cid := fun c'' => (checkedOut_spec _ c'' cid).1
          rw [hpc] at hn ⊢
          have : NotBusy s1 cid := h1 cid (hn.congr hconns2) (Or.inr (Or.inr ⟨r, c, hco1, hcid⟩))
          exact this.congr hconns2
      | connecting | delayDrop | delayed =>
        simp only []
        have hsd : Sub (startDial s1 r) s1 ∧ (startDial s1 r).conns = s1.conns := by
          unfold startDial; split
          · exact ⟨Sub.refl s1, rfl⟩
          · exact ⟨Sub.of_eq rfl rfl rfl rfl rfl rfl, rfl⟩
        have h2 := h1.sub_eq hsd.1 hsd.2
        have hco2 : (startDial s1 r).co r = some c := by rw [startDial_co]; exact hco1
        cases hout : (s1.dial r).outcome with
        | none => exact ⟨commit _ cw h2 hco2 (fun cid hc => by rw [cn1] at hc; exact hc), fun p hp => by cases hp⟩
        | some out =>
          simp only []
          have h3 := dropRx_ready h2 r
          have hco3 : (dropRx (startDial s1 r) r).co r = some c := by rw [dropRx_co]; exact hco2
          have ho3 : OriginInv (dropRx (startDial s1 r) r) := dropRx_inv (startDial_inv ho1 r) r
          cases out with
          | failConnect => exact ⟨commit _ _ h3 hco3 (fun cid hc => by rw [cn1] at hc; exact hc), fun p hp => by cases hp⟩
          | failHandshake => exact ⟨commit _ _ h3 hco3 (fun cid hc => by rw [cn1] at hc; exact hc), fun p hp => by cases hp⟩
          | ok alpn =>
            simp only []
            generalize hs3 : dropRx (startDial s1 r) r = s3 at h3 hco3 ho3
            have hfresh : s3.conns s3.nextConn = none := by
              cases hc : s3.conns s3.nextConn with
              | none => rfl
              | some conn => exact absurd (ho3.fresh _ conn hc) (Nat.lt_irrefl _)
            obtain ⟨h4, nb4⟩ := newConn_ready h3 { cw with inner := .connected, waiter := .noPool } alpn hfresh
            have hco4 : (newConn s3 { cw with inner := .connected, waiter := .noPool } alpn).1.co r = some c := hco3
            generalize newConn s3 { cw with inner := .connected, waiter := .noPool } alpn = nc at h4 nb4 hco4
            obtain ⟨s4, cid⟩ := nc
            simp only [] at h4 nb4 hco4 ⊢
            have h5 := registerConnected_ready h4 { cw with inner := .connected, waiter := .noPool } cid
            have pc5 : (registerConnected s4 { cw with inner := .connected, waiter := .noPool } cid).2.conn = cid := by
              unfold registerConnected; split <;> rfl
            have c5 : (registerConnected s4 { cw with inner := .connected, waiter := .noPool } cid).1.conns = s4.conns := by
              unfold registerConnected; split
              · exact push_conns _ _ _
              · rfl
            have co5 : (registerConnected s4 { cw with inner := .connected, waiter := .noPool } cid).1.co r = some c := by
              have : (registerConnected s4 { cw with inner := .connected, waiter := .noPool } cid).1.co = s4.co := by
                unfold registerConnected; split
                · exact push_co _ _ _
                · rfl
              rw [this]; exact hco4
            generalize registerConnected s4 { cw with inner := .connected, waiter := .noPool } cid = rc at h5 pc5 c5 co5
            obtain ⟨s5, p⟩ := rc
            simp only [] at h5 pc5 c5 co5 ⊢
            have hcc : ∀ x, ({ cw with inner := .connected, waiter := .noPool } : Checkout).conn = some x → c.conn = some x :=
              fun x hx => by rw [← cn1]; exact hx
            refine ⟨h5.sub_eq (Sub.commit (c' := { cw with inner := .connected, waiter := .noPool }) co5 hcc) rfl, ?_⟩
            intro p' hp' hn
            simp only [PollRes.got.injEq] at hp'
            subst hp'
            rw [pc5]
            exact nb4.congr c5

end Hd.Pool

namespace Hd.Pool

theorem runWhenReady_ready {s : State} (h : Ready s) (i : Nat) (c : ConnId) (t : Token) (hp : Bool) :
    Ready (runWhenReady s i c t hp) := by
  have h1 : Ready (removeTask s i) := h.sub_eq (removeTask_sub s i) rfl
  unfold runWhenReady
  cases hk : s.conns c with
  | none => exact h1
  | some k =>
    simp only []
    split
    · exact h1.sub_eq (Sub.of_eq rfl rfl rfl rfl rfl rfl) rfl
    · split
      · exact h
      · rename_i hb
        split
        · apply push_ready h1 t c
          intro _ k' hk'
          have : k' = k := by
            have : (removeTask s i).conns c = s.conns c := rfl
            rw [this, hk] at hk'; exact (Option.some.inj hk').symm
          subst this
          simpa using hb
        · exact h1.sub_eq (Sub.of_eq rfl rfl rfl rfl rfl rfl) rfl

theorem cancelIfOwner_co (s : State) (c : Checkout) : (cancelIfOwner s c).co = s.co := by
  unfold cancelIfOwner; split
  · unfold cancelConnection; split
    · simp only []
      have : ∀ (l : List ReqId) (x : State), (dropSenders x l).co = x.co := by
        intro l; induction l with
        | nil => intro x; rfl
        | cons a l ih => intro x; simp only [dropSenders]; rw [ih]; split <;> rfl
      rw [this]
    · rfl
  · rfl

theorem runDelayed_ready {s : State} (h : Ready s) (ho : OriginInv s) (i : Nat) (r : ReqId) : Ready (runDelayed s i r) := by
  unfold runDelayed
  cases hco : s.co r with
  | none => exact h.sub_eq (removeTask_sub s i) rfl
  | some c =>
    simp only []
    obtain ⟨h2, _⟩ := pollCheckout_ready h ho r c hco
    generalize pollCheckout s r c = res at h2
    obtain ⟨s1, c', pr⟩ := res
    simp only [] at h2 ⊢
    have tail : ∀ (s2 : State), Ready s2 → s2.co r = some c' →
        Ready { (cancelIfOwner (removeTask s2 i) c') with
                 co := upd (cancelIfOwner (removeTask s2 i) c').co r (some { c' with marker := false }) } := by
      intro s2 hl2 hr2
      have hs3 := removeTask_sub s2 i
      obtain ⟨hs4, c4⟩ := cancelIfOwner_sub (removeTask s2 i) c'
      have hr4 : (cancelIfOwner (removeTask s2 i) c').co r = some c' := by rw [cancelIfOwner_co]; exact hr2
      have hs5 := Sub.commit (s1 := cancelIfOwner (removeTask s2 i) c') (c' := { c' with marker := false }) hr4 (fun x hx => hx)
      exact hl2.sub_eq ((hs5.trans hs4).trans hs3) (by show (cancelIfOwner (removeTask s2 i) c').conns = s2.conns; rw [c4]; rfl)
    have hr2 : ({ s1 with co := upd s1.co r (some c') } : State).co r = some c' := by simp
    have h5 := tail _ h2 hr2
    cases pr with
    | pending => exact h2
    | got p => exact dropPooled_ready h5 p
    | err k => exact h5
    | panic => exact h5

theorem runTask_ready {s : State} (h : Ready s) (ho : OriginInv s) (i : Nat) : Ready (runTask s i) := by
  unfold runTask
  cases ht : taskOf s i with
  | none => exact h
  | some t =>
    cases t with
    | whenReady c tk hp => exact runWhenReady_ready h i c tk hp
    | delayed r => exact runDelayed_ready h ho i r

theorem runAll_ready : ∀ (fuel : Nat) (s : State), Ready s → OriginInv s → Ready (runAll fuel s)
  | 0, _, h, _ => h
  | fuel + 1, s, h, ho => by
    simp only [runAll]
    split
    · exact h
    · rename_i i q hq
      have hq' : Ready { s with runq := q } := h.sub_eq (Sub.of_eq rfl rfl rfl rfl rfl rfl) rfl
      have hoq : OriginInv { s with runq := q } := ho.congr rfl rfl rfl rfl rfl rfl rfl rfl rfl rfl
      exact runAll_ready fuel _ (runTask_ready hq' hoq i) (runTask_inv hoq i)

theorem abortTask_ready {s : State} (h : Ready s) (i : Nat) : Ready (abortTask s i) := by
  unfold abortTask
  cases ht : taskOf s i with
  | none => exact h
  | some t =>
    cases t with
    | whenReady c tk hp =>
      have h1 : Ready (removeTask s i) := h.sub_eq (removeTask_sub s i) rfl
      exact h1.sub_eq (Sub.of_eq rfl rfl rfl rfl rfl rfl) rfl
    | delayed r =>
      simp only []
      cases hco : s.co r with
      | none => exact h.sub_eq (removeTask_sub s i) rfl
      | some c =>
        simp only []
        have hs3 := removeTask_sub s i
        obtain ⟨hs4, c4⟩ := cancelIfOwner_sub (removeTask s i) c
        have hr4 : (cancelIfOwner (removeTask s i) c).co r = some c := by rw [cancelIfOwner_co]; exact hco
        have hs5 := Sub.commit (s1 := cancelIfOwner (removeTask s i) c) (c' := { c with marker := false }) hr4 (fun x hx => hx)
        exact h.sub_eq ((hs5.trans hs4).trans hs3) (by show (cancelIfOwner (removeTask s i) c).conns = s.conns; rw [c4]; rfl)

theorem abortAll_ready : ∀ (fuel : Nat) (s : State), Ready s → Ready (abortAll fuel s)
  | 0, _, h => h
  | fuel + 1, s, h => by
    simp only [abortAll]
    split
    · exact h.sub_eq (Sub.of_eq rfl rfl rfl rfl rfl rfl) rfl
    · exact abortAll_ready fuel _ (abortTask_ready h _)

/-- marking a connection busy (or closing it, or marking it ready) when it is not available for hand-out -/
theorem setConn_ready {s : State} (h : Ready s) (c : ConnId) (f : Conn → Conn) (hk : ∀ k, (f k).kind = k.kind)
    (hb : (∀ k, (f k).busy = k.busy ∨ (f k).busy = false) ∨ (NS s c → ¬ Pooledish s c)) : Ready (setConn s c f) := by
  obtain ⟨hs, _⟩ := setConn_sub s c f hk
  intro x hn hp
  have hn' := hs.ns x hn
  have hp' := hp.sub hs
  have hx := h x hn' hp'
  unfold setConn
  split
  · rename_i k0 hk0
    intro k hkk
    by_cases e : x = c
    · subst e
      simp only [upd_same, Option.some.injEq] at hkk
      subst hkk
      rcases hb with hb | hb
      · rcases hb k0 with e1 | e1
        · rw [e1]; exact hx k0 hk0
        · exact e1
      · exact absurd hp' (hb hn')
    · simp only [upd, e, if_false] at hkk
      exact hx k hkk
  · exact hx

theorem step_ready (s : State) (op : Op) (h : Ready s) (hl : LinInv s) (ho : OriginInv s) : Ready (step s op).1 := by
  cases op with
  | issue r k mux =>
    simp only [step]
    cases hco : s.co r with
    | some _ => exact h
    | none => exact issue_ready h r k mux hco
  | poll r =>
    simp only [step]
    cases hco : s.co r with
    | none => exact h
    | some c =>
      simp only []
      split
      · exact h
      · obtain ⟨h2, _⟩ := pollCheckout_ready h ho r c hco
        obtain ⟨l2, free2⟩ := pollCheckout_linear hl ho r c hco
        generalize pollCheckout s r c = res at h2 l2 free2
        obtain ⟨s1, c', pr⟩ := res
        simp only [] at h2 l2 free2 ⊢
        cases pr with
        | pending => exact h2
        | err k => exact dropCheckout_ready h2 r
        | panic => exact dropCheckout_ready h2 r
        | got p =>
          simp only []
          obtain ⟨f, ex⟩ := free2 p rfl
          have ha : AddAt { s1 with co := upd s1.co r (some c'), held := upd s1.held r (some p) }
              { s1 with co := upd s1.co r (some c') } p.conn (.held r) := AddAt.held r p rfl rfl rfl rfl rfl rfl
          have h3 : Ready { s1 with co := upd s1.co r (some c'), held := upd s1.held r (some p) } :=
            h2.addAt ha rfl (fun hh _ _ => absurd rfl (hh r))
          have l3 : Linear { s1 with co := upd s1.co r (some c'), held := upd s1.held r (some p) } := l2.lin.addAt ha f
          have h4 : Ready (if canShare { s1 with co := upd s1.co r (some c'), held := upd s1.held r (some p) } p.conn
              then { s1 with co := upd s1.co r (some c'), held := upd s1.held r (some p) }
              else setConn { s1 with co := upd s1.co r (some c'), held := upd s1.held r (some p) } p.conn (fun k => { k with busy := true })) := by
            split
            · exact h3
            · apply setConn_ready h3 p.conn (fun k => { k with busy := true }) (fun _ => rfl)
              right
              intro hn hpool
              -- the handle is in the request's hands, hence nowhere the pool hands out from
              have hat : At { s1 with co := upd s1.co r (some c'), held := upd s1.held r (some p) } p.conn (.held r) := ⟨p, by simp, rfl⟩
              rcases hpool with ⟨t, ht⟩ | ⟨r', hr'⟩ | ⟨r', hr'⟩
              · exact l3.cross p.conn hn ⟨t, ht⟩ _ hat
              · have := l3.point p.conn hn _ _ hat hr'; cases this
              · have := l3.point p.conn hn _ _ hat hr'; cases this
          exact dropCheckout_ready h4 r
  | cancel r =>
    simp only [step]
    cases hh : s.held r with
    | some p =>
      simp only []
      have hs : Sub { s with held := upd s.held r none } s := by
        refine Sub.of_fields rfl (fun _ _ h => h) (fun _ chk _ h hc => ⟨chk, h, hc⟩) ?_ (fun _ _ _ _ h => h) (fun _ _ => Nat.le_refl _)
        intro r' p' hp'
        by_cases e : r' = r
        · subst e; simp at hp'
        · simpa [upd, e] using hp'
      exact dropPooled_ready (h.sub_eq hs rfl) p
    | none =>
      simp only []
      cases hco : s.co r with
      | none => exact h
      | some c =>
        simp only []
        split
        · exact dropCheckout_ready h r
        · exact h
  | cancelOff r =>
    simp only [step]
    cases hh : s.held r with
    | some p =>
      simp only []
      have hs : Sub { s with held := upd s.held r none } s := by
        refine Sub.of_fields rfl (fun _ _ h => h) (fun _ chk _ h hc => ⟨chk, h, hc⟩) ?_ (fun _ _ _ _ h => h) (fun _ _ => Nat.le_refl _)
        intro r' p' hp'
        by_cases e : r' = r
        · subst e; simp at hp'
        · simpa [upd, e] using hp'
      exact abortTask_ready (dropPooled_ready (h.sub_eq hs rfl) p) _
    | none => exact h
  | dialDone r o =>
    simp only [step]
    split
    · exact h.sub_eq (Sub.of_eq rfl rfl rfl rfl rfl rfl) rfl
    · exact h
  | finish r =>
    simp only [step]
    cases hh : s.held r with
    | some p =>
      simp only []
      have hs : Sub { s with held := upd s.held r none } s := by
        refine Sub.of_fields rfl (fun _ _ h => h) (fun _ chk _ h hc => ⟨chk, h, hc⟩) ?_ (fun _ _ _ _ h => h) (fun _ _ => Nat.le_refl _)
        intro r' p' hp'
        by_cases e : r' = r
        · subst e; simp at hp'
        · simpa [upd, e] using hp'
      exact dropPooled_ready (h.sub_eq hs rfl) p
    | none => exact h
  | connReady c =>
    simp only [step]
    split
    · have h1 := setConn_ready h c (fun k => { k with busy := false }) (fun _ => rfl) (Or.inl (fun _ => Or.inr rfl))
      exact h1.sub_eq (Sub.of_eq rfl rfl rfl rfl rfl rfl) rfl
    · exact h
  | connClose c =>
    simp only [step]
    split
    · have h1 := setConn_ready h c (fun k => { k with isOpen := false }) (fun _ => rfl) (Or.inl (fun _ => Or.inl rfl))
      exact h1.sub_eq (Sub.of_eq rfl rfl rfl rfl rfl rfl) rfl
    · exact h
  | connFail c =>
    simp only [step]
    split
    · split
      · have h1 := setConn_ready h c (fun k => { k with isOpen := false }) (fun _ => rfl) (Or.inl (fun _ => Or.inl rfl))
        exact h1.sub_eq (Sub.of_eq rfl rfl rfl rfl rfl rfl) rfl
      · exact h
    · exact h
  | run => exact runAll_ready _ s h ho
  | tick ms => exact h.sub_eq (Sub.of_eq rfl rfl rfl rfl rfl rfl) rfl
  | mark => exact h
  | shutdown => exact abortAll_ready _ s h

theorem run_ready : ∀ (ops : List Op) (s : State), Ready s → LinInv s → OriginInv s → Ready (run s ops).1
  | [], _, h, _, _ => h
  | op :: ops, s, h, hl, ho => by
    simp only [run]
    exact run_ready ops _ (step_ready s op h hl ho) (step_lininv s op hl ho) (step_originInv s op ho)

end Hd.Pool
