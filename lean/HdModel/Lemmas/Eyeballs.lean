import HdModel.Spec.Eyeballs
/-! Invariants of the happy-eyeballs model (core Lean only). -/
namespace Hd.Eyeballs

/-- Order/once + deadline invariant. -/
structure Inv1 (c : Cfg) (n : Nat) (s : St) : Prop where
  order : s.starts.map (·.1) ++ s.queue = List.range n
  dl    : ∀ d, c.timeout = some d → s.now ≤ d
  mono  : ∀ st ∈ s.starts, st.2 ≤ s.now
  due   : ∀ r ∈ s.running, ∀ t, r.fin = some t → s.now ≤ t

theorem inv1_start {c : Cfg} {n : Nat} {atts : List Attempt} {s : St} {f : Nat} {q : List Nat}
    (h : Inv1 c n s) (hq : s.queue = f :: q) : Inv1 c n (start atts { s with queue := q } f) := by
  constructor
  · have := h.order; rw [hq] at this; simpa [start] using this
  · exact h.dl
  · intro st hst
    simp [start] at hst
    rcases hst with hst | rfl
    · exact h.mono st hst
    · simp [start]
  · intro r hr t ht
    simp [start] at hr
    rcases hr with hr | rfl
    · exact h.due r hr t ht
    · simp at ht
      obtain ⟨l, _, rfl⟩ := ht
      simp [start]

theorem inv1_startN {c : Cfg} {n : Nat} {atts : List Attempt} (k : Nat) {s : St}
    (h : Inv1 c n s) : Inv1 c n (startN atts k s) := by
  induction k generalizing s with
  | zero => simpa [startN] using h
  | succ k ih =>
    unfold startN
    split
    · exact h
    · rename_i i q hq; exact ih (inv1_start h hq)

theorem inv1_init (c : Cfg) (n : Nat) : Inv1 c n (init n) := by
  constructor <;> simp [init]

theorem earliest_mem {rs : List Running} {tf j : Nat} (h : earliest rs = some (tf, j)) :
    ∃ r ∈ rs, r.idx = j ∧ r.fin = some tf := by
  induction rs generalizing tf j with
  | nil => simp [earliest] at h
  | cons r rs ih =>
    unfold earliest at h
    split at h
    · obtain ⟨r', hr', h1, h2⟩ := ih h
      exact ⟨r', List.mem_cons_of_mem _ hr', h1, h2⟩
    · rename_i t _ hf _
      simp at h; obtain ⟨rfl, rfl⟩ := h
      exact ⟨r, by simp, rfl, hf⟩
    · rename_i t t' j' hf he
      split at h
      · simp at h; obtain ⟨rfl, rfl⟩ := h
        exact ⟨r, by simp, rfl, hf⟩
      · simp at h; obtain ⟨rfl, rfl⟩ := h
        obtain ⟨r', hr', h1, h2⟩ := ih he
        exact ⟨r', List.mem_cons_of_mem _ hr', h1, h2⟩

theorem earliest_le {rs : List Running} {tf j : Nat} (h : earliest rs = some (tf, j)) :
    ∀ r ∈ rs, ∀ t, r.fin = some t → tf ≤ t := by
  induction rs generalizing tf j with
  | nil => simp
  | cons r rs ih =>
    intro r' hr' t ht
    unfold earliest at h
    split at h
    · rename_i hf
      simp at hr'
      rcases hr' with rfl | hr'
      · rw [hf] at ht; cases ht
      · exact ih h r' hr' t ht
    · rename_i t0 _ hf he
      simp at h; obtain ⟨rfl, rfl⟩ := h
      simp at hr'
      rcases hr' with rfl | hr'
      · rw [hf] at ht; cases ht; exact Nat.le_refl _
      · -- no finite completion among the rest
        exfalso
        clear ih
        induction rs with
        | nil => simp at hr'
        | cons x xs ihx =>
          unfold earliest at he
          split at he
          · rename_i hx
            simp at hr'
            rcases hr' with rfl | hr'
            · rw [hx] at ht; cases ht
            · exact ihx he hr'
          · simp at he
          · split at he <;> simp at he
    · rename_i t0 t' j' hf he
      simp at hr'
      split at h
      · rename_i hle
        simp at h; obtain ⟨rfl, rfl⟩ := h
        rcases hr' with rfl | hr'
        · rw [hf] at ht; cases ht; exact Nat.le_refl _
        · exact Nat.le_trans hle (ih he r' hr' t ht)
      · rename_i hnle
        simp at h; obtain ⟨rfl, rfl⟩ := h
        rcases hr' with rfl | hr'
        · rw [hf] at ht; cases ht; omega
        · exact ih he r' hr' t ht

theorem earliest_none {rs : List Running} (h : earliest rs = none) : ∀ r ∈ rs, r.fin = none := by
  induction rs with
  | nil => simp
  | cons r rs ih =>
    unfold earliest at h
    split at h
    · rename_i hf
      intro r' hr'; simp at hr'
      rcases hr' with rfl | hr'
      · exact hf
      · exact ih h r' hr'
    · simp at h
    · split at h <;> simp at h

/-- Moving the clock forward to an instant not past the deadline. -/
theorem inv1_advance {c : Cfg} {n : Nat} {s s' : St} (t : Nat) (h : Inv1 c n s)
    (hnow : s'.now = t) (hge : s.now ≤ t) (hp : past c t = false)
    (hst : s'.starts = s.starts) (hq : s'.queue = s.queue)
    (hrun : ∀ r ∈ s'.running, r ∈ s.running ∧ ∀ u, r.fin = some u → t ≤ u) : Inv1 c n s' := by
  constructor
  · rw [hst, hq]; exact h.order
  · intro d hd; rw [hnow]; simp [past, hd] at hp; exact hp
  · intro st hs; rw [hst] at hs; rw [hnow]; exact Nat.le_trans (h.mono st hs) hge
  · intro r hr u hu; rw [hnow]; exact (hrun r hr).2 u hu

end Hd.Eyeballs

namespace Hd.Eyeballs

/-- What stage 1 establishes about a finished run. -/
def ResOK (c : Cfg) (r : Result) (s : St) : Prop :=
  (∀ t d, resTime r = some t → c.timeout = some d → t ≤ d) ∧
  (∀ t, resTime r = some t → ∀ st ∈ s.starts, st.2 ≤ t)

theorem past_false_le {c : Cfg} {t d : Nat} (hp : past c t = false) (hd : c.timeout = some d) : t ≤ d := by
  simp [past, hd] at hp; exact hp

theorem past_true_some {c : Cfg} {t : Nat} (hp : past c t = true) : ∃ d, c.timeout = some d := by
  unfold past at hp
  cases h : c.timeout with
  | none => simp [h] at hp
  | some d => exact ⟨d, rfl⟩

theorem resOK_now {c : Cfg} {n : Nat} {s : St} (h : Inv1 c n s) (r : Result) (hr : resTime r = some s.now) :
    ResOK c r s := by
  constructor
  · intro t d ht hd; rw [hr] at ht; cases ht; exact h.dl d hd
  · intro t ht st hst; rw [hr] at ht; cases ht; exact h.mono st hst

theorem resOK_timeout {c : Cfg} {n : Nat} {s : St} (h : Inv1 c n s) (d : Nat) (hd : c.timeout = some d) :
    ResOK c (.timeout d) s := by
  constructor
  · intro t d' ht hd'; simp [resTime] at ht; subst ht; rw [hd] at hd'; cases hd'; exact Nat.le_refl _
  · intro t ht st hst; simp [resTime] at ht; subst ht
    exact Nat.le_trans (h.mono st hst) (h.dl d hd)

theorem resOK_hang (c : Cfg) (s : St) : ResOK c .hang s := by
  constructor <;> intro t <;> simp [resTime]

theorem inv1_complete {c : Cfg} {n : Nat} {atts : List Attempt} {s : St} {j tf : Nat} (h : Inv1 c n s)
    (he : earliest s.running = some (tf, j)) (hp : past c tf = false) :
    Inv1 c n (complete atts s j tf) := by
  obtain ⟨r, hr, _, hf⟩ := earliest_mem he
  refine inv1_advance tf h rfl (h.due r hr tf hf) hp rfl rfl ?_
  intro r' hr'
  simp [complete] at hr'
  exact ⟨hr'.1, earliest_le he r' hr'.1⟩

theorem inv1_recordFail {c : Cfg} {n : Nat} {s : St} {j : Nat} (h : Inv1 c n s) : Inv1 c n (recordFail s j) :=
  ⟨h.order, h.dl, h.mono, h.due⟩

end Hd.Eyeballs

namespace Hd.Eyeballs

theorem inv1_tick {c : Cfg} {n : Nat} {s : St} {te : Nat} (h : Inv1 c n s) (hge : s.now ≤ te)
    (hp : past c te = false)
    (hrun : ∀ r ∈ s.running, ∀ u, r.fin = some u → te ≤ u) :
    Inv1 c n { s with now := te } :=
  inv1_advance te h rfl hge hp rfl rfl (fun r hr => ⟨hr, hrun r hr⟩)

theorem nextEvent_completion {rs : List Running} {tick : Option Nat} {tf j : Nat}
    (h : nextEvent rs tick = .completion tf j) : earliest rs = some (tf, j) := by
  unfold nextEvent at h
  split at h
  · split at h <;> simp at h
    obtain ⟨rfl, rfl⟩ := h; assumption
  · simp at h; obtain ⟨rfl, rfl⟩ := h; assumption
  · simp at h
  · simp at h

theorem nextEvent_tick {rs : List Running} {tick : Option Nat} {te : Nat}
    (h : nextEvent rs tick = .tick te) :
    tick = some te ∧ ∀ r ∈ rs, ∀ u, r.fin = some u → te ≤ u := by
  unfold nextEvent at h
  split at h
  · rename_i tf j te' hE
    split at h <;> simp at h
    subst h
    refine ⟨rfl, ?_⟩
    intro r hr u hu
    have := earliest_le hE r hr u hu
    omega
  · simp at h
  · rename_i te' hE
    simp at h; subst h
    refine ⟨rfl, ?_⟩
    intro r hr u hu
    have := earliest_none hE r hr; rw [this] at hu; cases hu
  · simp at h

theorem resOK_stuck {c : Cfg} {n : Nat} {s : St} (h : Inv1 c n s) : ResOK c (stuckResult c) s := by
  unfold stuckResult
  split
  · rename_i d hd; exact resOK_timeout h d hd
  · exact resOK_hang c s

theorem resOK_past {c : Cfg} {n : Nat} {s : St} {t : Nat} (h : Inv1 c n s) (hp : past c t = true) :
    ResOK c (.timeout (c.timeout.getD 0)) s := by
  obtain ⟨d, hd⟩ := past_true_some hp
  simp only [hd, Option.getD_some]
  exact resOK_timeout h d hd

/-- Stage-1 invariant through the whole loop. -/
theorem loop_inv1 (c : Cfg) (atts : List Attempt) (n : Nat) (fuel : Nat) (s : St) (h : Inv1 c n s) :
    Inv1 c n (loop c atts fuel s).2 ∧ ResOK c (loop c atts fuel s).1 (loop c atts fuel s).2 := by
  induction fuel generalizing s with
  | zero => exact ⟨h, resOK_hang c s⟩
  | succ fuel ih =>
    unfold loop
    split
    · rename_i f q hq
      split
      · exact ih _ (inv1_start h hq)
      · split
        · rename_i tf j hev
          have he := nextEvent_completion hev
          split
          · rename_i hp; exact ⟨h, resOK_past h hp⟩
          · rename_i hp
            have hp' : past c tf = false := by simpa using hp
            have hc := inv1_complete (atts := atts) h he hp'
            split
            · exact ⟨hc, resOK_now hc _ rfl⟩
            · apply ih
              have hq' : (recordFail (complete atts s j tf) j).queue = f :: q := by
                simp [recordFail, complete, hq]
              exact inv1_start (inv1_recordFail hc) hq'
        · rename_i te hev
          obtain ⟨htk, hrun'⟩ := nextEvent_tick hev
          obtain ⟨d, hd, rfl⟩ : ∃ d, c.delay = some d ∧ te = s.now + d := by
            cases hd : c.delay with
            | none => simp [hd] at htk
            | some d => simp [hd] at htk; exact ⟨d, rfl, htk.symm⟩
          split
          · rename_i hp; exact ⟨h, resOK_past h hp⟩
          · rename_i hp
            have hp' : past c (s.now + d) = false := by simpa using hp
            apply ih
            have ht := inv1_tick (te := s.now + d) h (by omega) hp' hrun'
            have hq' : ({ s with now := s.now + d } : St).queue = f :: q := hq
            exact inv1_start ht hq'
        · exact ⟨h, resOK_stuck h⟩
    · split
      · split
        · exact ⟨h, resOK_now h _ rfl⟩
        · exact ⟨h, resOK_now h _ rfl⟩
      · split
        · rename_i tf j hev
          have he := nextEvent_completion hev
          split
          · rename_i hp; exact ⟨h, resOK_past h hp⟩
          · rename_i hp
            have hp' : past c tf = false := by simpa using hp
            have hc := inv1_complete (atts := atts) h he hp'
            split
            · exact ⟨hc, resOK_now hc _ rfl⟩
            · exact ih _ (inv1_recordFail hc)
        · exact ⟨h, resOK_stuck h⟩

end Hd.Eyeballs
