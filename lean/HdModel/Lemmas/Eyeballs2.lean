import HdModel.Lemmas.Eyeballs
/-! Stage-2 invariant of the happy-eyeballs model: who is running, who has failed, and when. -/
namespace Hd.Eyeballs

structure Inv2 (atts : List Attempt) (s : St) : Prop where
  runStarted : ∀ r ∈ s.running, ∃ st ∈ s.starts, st.1 = r.idx ∧ r.fin = finOf atts st
  acct : ∀ st ∈ s.starts, (∃ r ∈ s.running, r.idx = st.1) ∨ (∃ t, (st.1, t) ∈ s.fails)
  failsOk : ∀ p ∈ s.fails, outOf atts p.1 = .err ∧
    (∃ st ∈ s.starts, st.1 = p.1 ∧ finOf atts st = some p.2) ∧ p.2 ≤ s.now
  firstErrHead : s.firstErr = s.fails.head?.map (·.1)
  failsSorted : ∀ hd, s.fails.head? = some hd → ∀ p ∈ s.fails, hd.2 ≤ p.2
  fresh : s.starts = [] → s.now = 0 ∧ s.running = [] ∧ s.fails = []

theorem inv2_init (atts : List Attempt) (n : Nat) : Inv2 atts (init n) := by
  constructor <;> simp [init]

theorem inv2_start {atts : List Attempt} {s : St} {f : Nat} {q : List Nat}
    (h : Inv2 atts s) : Inv2 atts (start atts { s with queue := q } f) := by
  constructor
  · intro r hr
    simp only [start, List.mem_append, List.mem_singleton] at hr ⊢
    rcases hr with hr | rfl
    · obtain ⟨st, hst, h1, h2⟩ := h.runStarted r hr
      exact ⟨st, Or.inl hst, h1, h2⟩
    · exact ⟨(f, s.now), Or.inr rfl, rfl, rfl⟩
  · intro st hst
    simp only [start, List.mem_append, List.mem_singleton] at hst ⊢
    rcases hst with hst | rfl
    · rcases h.acct st hst with ⟨r, hr, e⟩ | ⟨t, ht⟩
      · exact Or.inl ⟨r, Or.inl hr, e⟩
      · exact Or.inr ⟨t, ht⟩
    · exact Or.inl ⟨_, Or.inr rfl, rfl⟩
  · intro p hp
    obtain ⟨h1, ⟨st, hst, h2, h3⟩, h4⟩ := h.failsOk p hp
    refine ⟨h1, ⟨st, ?_, h2, h3⟩, h4⟩
    simp only [start, List.mem_append]; exact Or.inl hst
  · exact h.firstErrHead
  · exact h.failsSorted
  · intro he; simp [start] at he

theorem inv2_startN {atts : List Attempt} (k : Nat) {s : St} (h : Inv2 atts s) :
    Inv2 atts (startN atts k s) := by
  induction k generalizing s with
  | zero => simpa [startN] using h
  | succ k ih =>
    unfold startN
    split
    · exact h
    · exact ih (inv2_start h)

/-- Advancing the clock (stagger tick). -/
theorem inv2_tick {atts : List Attempt} {s : St} {te : Nat} (h : Inv2 atts s) (hge : s.now ≤ te)
    (hne : s.starts ≠ []) : Inv2 atts { s with now := te } := by
  constructor
  · exact h.runStarted
  · exact h.acct
  · intro p hp
    obtain ⟨h1, h2, h4⟩ := h.failsOk p hp
    exact ⟨h1, h2, Nat.le_trans h4 hge⟩
  · exact h.firstErrHead
  · exact h.failsSorted
  · intro he; exact absurd he hne

/-- A failed completion: `complete` then `recordFail`. -/
theorem inv2_fail {c : Cfg} {n : Nat} {atts : List Attempt} {s : St} {j tf : Nat}
    (h1 : Inv1 c n s) (h : Inv2 atts s) (he : earliest s.running = some (tf, j))
    (hout : outOf atts j = .err) : Inv2 atts (recordFail (complete atts s j tf) j) := by
  obtain ⟨r, hr, hidx, hfin⟩ := earliest_mem he
  have hnow : s.now ≤ tf := h1.due r hr tf hfin
  obtain ⟨st0, hst0, hs1, hs2⟩ := h.runStarted r hr
  constructor
  · intro r' hr'
    simp only [recordFail, complete, List.mem_filter] at hr'
    exact h.runStarted r' hr'.1
  · intro st hst
    simp only [recordFail, complete] at hst ⊢
    by_cases hj : st.1 = j
    · exact Or.inr ⟨tf, by simp [hj]⟩
    · rcases h.acct st hst with ⟨r', hr', e⟩ | ⟨t, ht⟩
      · refine Or.inl ⟨r', ?_, e⟩
        simp only [List.mem_filter]
        refine ⟨hr', ?_⟩
        simp [e, hj]
      · exact Or.inr ⟨t, by simp [ht]⟩
  · intro p hp
    simp only [recordFail, complete, List.mem_append, List.mem_singleton] at hp ⊢
    rcases hp with hp | rfl
    · obtain ⟨a, b, d⟩ := h.failsOk p hp
      exact ⟨a, b, Nat.le_trans d hnow⟩
    · refine ⟨hout, ⟨st0, hst0, ?_, ?_⟩, Nat.le_refl _⟩
      · rw [hs1, hidx]
      · rw [← hs2, hfin]
  · simp only [recordFail, complete]
    rw [h.firstErrHead]
    cases hf : s.fails with
    | nil => simp
    | cons hd tl => simp
  · intro hd hhd p hp
    simp only [recordFail, complete, List.mem_append, List.mem_singleton] at hhd hp
    cases hf : s.fails with
    | nil =>
      simp [hf] at hhd hp
      subst hhd; subst hp; exact Nat.le_refl _
    | cons x xs =>
      simp [hf] at hhd
      subst hhd
      rw [hf] at hp
      rcases hp with hp | rfl
      · exact h.failsSorted x (by simp [hf]) p (by rw [hf]; exact hp)
      · have := (h.failsOk x (by simp [hf])).2.2
        exact Nat.le_trans this hnow
  · intro hs
    simp only [recordFail, complete] at hs
    rw [hs] at hst0; simp at hst0

end Hd.Eyeballs

namespace Hd.Eyeballs

theorem inj_of_nodup_map {α β : Type} (f : α → β) : ∀ (l : List α), (l.map f).Nodup →
    ∀ a ∈ l, ∀ b ∈ l, f a = f b → a = b := by
  intro l
  induction l with
  | nil => intro _ a ha; simp at ha
  | cons x xs ih =>
    intro hn a ha b hb hab
    simp only [List.map_cons, List.nodup_cons, List.mem_map] at hn
    simp only [List.mem_cons] at ha hb
    rcases ha with rfl | ha <;> rcases hb with rfl | hb
    · rfl
    · exact absurd ⟨b, hb, hab.symm⟩ hn.1
    · exact absurd ⟨a, ha, hab⟩ hn.1
    · exact ih hn.2 a ha b hb hab

theorem starts_inj {c : Cfg} {n : Nat} {s : St} (h : Inv1 c n s) :
    ∀ a ∈ s.starts, ∀ b ∈ s.starts, a.1 = b.1 → a = b := by
  have : (s.starts.map (·.1) ++ s.queue).Nodup := by rw [h.order]; exact List.nodup_range
  exact inj_of_nodup_map (fun (x : Nat × Nat) => x.1) s.starts (List.nodup_append.mp this).1

/-- No started attempt succeeds before `T` if no running attempt completes before `T`. -/
theorem no_success_before {c : Cfg} {n : Nat} {atts : List Attempt} {s : St} (T : Nat)
    (h1 : Inv1 c n s) (h2 : Inv2 atts s)
    (hrun : ∀ r ∈ s.running, ∀ u, r.fin = some u → T ≤ u) :
    ∀ st ∈ s.starts, ∀ u, succeedsAt atts st = some u → T ≤ u := by
  intro st hst u hu
  unfold succeedsAt at hu
  split at hu
  · rename_i hok
    rcases h2.acct st hst with ⟨r, hr, e⟩ | ⟨t, ht⟩
    · obtain ⟨st', hst', e1, e2⟩ := h2.runStarted r hr
      have : st' = st := starts_inj h1 st' hst' st hst (by rw [e1, e])
      subst this
      exact hrun r hr u (by rw [e2, hu])
    · have := (h2.failsOk _ ht).1
      simp at this; rw [this] at hok; cases hok
  · cases hu

def Post2 (c : Cfg) (atts : List Attempt) (r : Result) (s : St) : Prop :=
  match r with
  | .ok j tf => (∃ st ∈ s.starts, st.1 = j ∧ succeedsAt atts st = some tf) ∧
      (∀ st ∈ s.starts, ∀ u, succeedsAt atts st = some u → tf ≤ u)
  | .firstErr i t => s.queue = [] ∧ (∀ st ∈ s.starts, ∃ u, failsAt atts st = some u ∧ u ≤ t) ∧
      (∃ st ∈ s.starts, st.1 = i ∧ ∃ u, failsAt atts st = some u ∧
        ∀ st' ∈ s.starts, ∀ u', failsAt atts st' = some u' → u ≤ u')
  | .timeout t => c.timeout = some t ∧ ∀ st ∈ s.starts, ∀ u, succeedsAt atts st = some u → t < u
  | .noProgress t => s.starts = [] ∧ s.queue = [] ∧ t = 0
  | .hang => c.timeout = none ∧ ∀ st ∈ s.starts, ∀ u, succeedsAt atts st ≠ some u

theorem post_past {c : Cfg} {n : Nat} {atts : List Attempt} {s : St} {T : Nat}
    (h1 : Inv1 c n s) (h2 : Inv2 atts s) (hp : past c T = true)
    (hrun : ∀ r ∈ s.running, ∀ u, r.fin = some u → T ≤ u) :
    Post2 c atts (.timeout (c.timeout.getD 0)) s := by
  obtain ⟨d, hd⟩ := past_true_some hp
  simp only [hd, Option.getD_some, Post2, true_and]
  intro st hst u hu
  have := no_success_before T h1 h2 hrun st hst u hu
  simp [past, hd] at hp
  omega

theorem post_stuck {c : Cfg} {n : Nat} {atts : List Attempt} {s : St}
    (h1 : Inv1 c n s) (h2 : Inv2 atts s) (hrun : ∀ r ∈ s.running, r.fin = none) :
    Post2 c atts (stuckResult c) s := by
  unfold stuckResult
  split
  · rename_i d hd
    simp only [Post2, hd, true_and]
    intro st hst u hu
    have := no_success_before (u + d + 1) h1 h2 (by intro r hr v hv; rw [hrun r hr] at hv; cases hv) st hst u hu
    omega
  · rename_i hd
    simp only [Post2, hd, true_and]
    intro st hst u hu
    have := no_success_before (u + 1) h1 h2 (by intro r hr v hv; rw [hrun r hr] at hv; cases hv) st hst u hu
    omega

theorem post_ok {c : Cfg} {n : Nat} {atts : List Attempt} {s : St} {j tf : Nat}
    (h1 : Inv1 c n s) (h2 : Inv2 atts s) (he : earliest s.running = some (tf, j))
    (hout : outOf atts j = .ok) : Post2 c atts (.ok j tf) (complete atts s j tf) := by
  obtain ⟨r, hr, hidx, hfin⟩ := earliest_mem he
  obtain ⟨st0, hst0, hs1, hs2⟩ := h2.runStarted r hr
  simp only [Post2, complete]
  constructor
  · refine ⟨st0, hst0, by rw [hs1, hidx], ?_⟩
    unfold succeedsAt
    rw [hs1, hidx, hout]; simp [← hs2, hfin]
  · exact no_success_before tf h1 h2 (earliest_le he)

theorem post_drained {c : Cfg} {n : Nat} {atts : List Attempt} {s : St}
    (h1 : Inv1 c n s) (h2 : Inv2 atts s) (hq : s.queue = []) (hr : s.running = []) :
    Post2 c atts (match s.firstErr with | some i => .firstErr i s.now | none => .noProgress s.now) s := by
  have hall : ∀ st ∈ s.starts, ∃ u, (st.1, u) ∈ s.fails ∧ failsAt atts st = some u ∧ u ≤ s.now := by
    intro st hst
    rcases h2.acct st hst with ⟨r, hr', _⟩ | ⟨t, ht⟩
    · rw [hr] at hr'; simp at hr'
    · obtain ⟨a, ⟨st', hst', e1, e2⟩, d⟩ := h2.failsOk _ ht
      have : st' = st := starts_inj h1 st' hst' st hst e1
      subst this
      refine ⟨t, ht, ?_, d⟩
      unfold failsAt; simp at a; simp [a]; exact e2
  split
  · rename_i i hfe
    simp only [Post2]
    refine ⟨hq, ?_, ?_⟩
    · intro st hst
      obtain ⟨u, _, hu, hle⟩ := hall st hst
      exact ⟨u, hu, hle⟩
    · rw [h2.firstErrHead] at hfe
      cases hf : s.fails with
      | nil => simp [hf] at hfe
      | cons hd tl =>
        simp [hf] at hfe
        obtain ⟨a, ⟨st, hst, e1, e2⟩, _⟩ := h2.failsOk hd (by simp [hf])
        refine ⟨st, hst, by rw [e1, hfe], hd.2, ?_, ?_⟩
        · unfold failsAt; rw [e1, a]; simp [e2]
        · intro st' hst' u' hu'
          obtain ⟨u, hmem, hu, _⟩ := hall st' hst'
          rw [hu] at hu'; cases hu'
          exact h2.failsSorted hd (by simp [hf]) _ hmem
  · rename_i hfe
    simp only [Post2]
    rw [h2.firstErrHead] at hfe
    have hf : s.fails = [] := by
      cases hf : s.fails with
      | nil => rfl
      | cons hd tl => simp [hf] at hfe
    have hs : s.starts = [] := by
      cases hs : s.starts with
      | nil => rfl
      | cons st tl =>
        obtain ⟨u, hmem, _⟩ := hall st (by simp [hs])
        rw [hf] at hmem; simp at hmem
    exact ⟨hs, hq, (h2.fresh hs).1⟩

end Hd.Eyeballs

namespace Hd.Eyeballs

theorem running_ne_starts_ne {atts : List Attempt} {s : St} (h2 : Inv2 atts s) {r0 : Running} {rs : List Running}
    (hr : s.running = r0 :: rs) : s.starts ≠ [] := by
  intro he
  have := (h2.fresh he).2.1
  rw [hr] at this; cases this

theorem filter_lt {rs : List Running} {tf j : Nat} (he : earliest rs = some (tf, j)) :
    (rs.filter (·.idx != j)).length < rs.length := by
  obtain ⟨r, hr, hidx, _⟩ := earliest_mem he
  have hle := List.length_filter_le (fun (x : Running) => x.idx != j) rs
  by_cases heq : (rs.filter (·.idx != j)).length = rs.length
  · have := List.length_filter_eq_length_iff.mp heq r hr
    simp [hidx] at this
  · omega

/-- Stage-2 postcondition through the whole loop; `fuel` exceeds the number of events left. -/
theorem loop_post2 (c : Cfg) (atts : List Attempt) (n : Nat) (fuel : Nat) (s : St)
    (h1 : Inv1 c n s) (h2 : Inv2 atts s) (hfuel : 2 * s.queue.length + s.running.length < fuel) :
    Post2 c atts (loop c atts fuel s).1 (loop c atts fuel s).2 := by
  induction fuel generalizing s with
  | zero => omega
  | succ fuel ih =>
    unfold loop
    split
    · rename_i f q hq
      split
      · rename_i hr0
        refine ih _ (inv1_start h1 hq) (inv2_start h2) ?_
        simp [start, hq, hr0] at hfuel ⊢; omega
      · rename_i r0 rs hrun
        have hne := running_ne_starts_ne h2 hrun
        split
        · rename_i tf j hev
          have he := nextEvent_completion hev
          split
          · rename_i hp; exact post_past h1 h2 hp (earliest_le he)
          · rename_i hp
            have hp' : past c tf = false := by simpa using hp
            have hc := inv1_complete (atts := atts) h1 he hp'
            split
            · rename_i hout; exact post_ok h1 h2 he hout
            · rename_i hout
              apply ih
              · have hq' : (recordFail (complete atts s j tf) j).queue = f :: q := by
                  simp [recordFail, complete, hq]
                exact inv1_start (inv1_recordFail hc) hq'
              · exact inv2_start (inv2_fail h1 h2 he hout)
              · have := filter_lt he
                simp [start, recordFail, complete, hq] at hfuel ⊢; omega
        · rename_i te hev
          obtain ⟨htk, hrun'⟩ := nextEvent_tick hev
          obtain ⟨d, hd, rfl⟩ : ∃ d, c.delay = some d ∧ te = s.now + d := by
            cases hd : c.delay with
            | none => simp [hd] at htk
            | some d => simp [hd] at htk; exact ⟨d, rfl, htk.symm⟩
          split
          · rename_i hp; exact post_past h1 h2 hp hrun'
          · rename_i hp
            have hp' : past c (s.now + d) = false := by simpa using hp
            apply ih
            · have ht := inv1_tick (te := s.now + d) h1 (by omega) hp' hrun'
              have hq' : ({ s with now := s.now + d } : St).queue = f :: q := hq
              exact inv1_start ht hq'
            · exact inv2_start (inv2_tick h2 (by omega) hne)
            · simp [start, hq] at hfuel ⊢; omega
        · rename_i hev
          apply post_stuck h1 h2
          unfold nextEvent at hev
          split at hev
          · split at hev <;> simp at hev
          · simp at hev
          · simp at hev
          · rename_i hE _; exact earliest_none hE
    · rename_i hq
      split
      · rename_i hr
        have := post_drained h1 h2 hq hr
        split <;> (rename_i hfe; simp only [hfe] at this; exact this)
      · rename_i r0 rs hrun
        split
        · rename_i tf j hev
          have he := nextEvent_completion hev
          split
          · rename_i hp; exact post_past h1 h2 hp (earliest_le he)
          · rename_i hp
            have hp' : past c tf = false := by simpa using hp
            have hc := inv1_complete (atts := atts) h1 he hp'
            split
            · rename_i hout; exact post_ok h1 h2 he hout
            · rename_i hout
              refine ih _ (inv1_recordFail hc) (inv2_fail h1 h2 he hout) ?_
              have := filter_lt he
              simp [recordFail, complete, hq] at hfuel ⊢; omega
        · rename_i hev
          apply post_stuck h1 h2
          have hE : earliest s.running = none := by
            unfold nextEvent at hev
            split at hev
            · rename_i hx; cases hx
            · rename_i tf' j' hE' _; exact absurd rfl (hev tf' j')
            · rename_i hE' _; exact hE'
            · rename_i hE' _; exact hE'
          exact earliest_none hE

end Hd.Eyeballs
