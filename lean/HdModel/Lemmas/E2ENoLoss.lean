import HdModel.Lemmas.E2EInv
/-! No request is silently lost: invariant for the liveness half of C01. -/
namespace Hd.E2E

/-- request `i` has a message in flight on connection `c` -/
def inFlight (c : Conn) (i : Nat) : Prop :=
  (∃ q ∈ c.toServer ++ c.inHandler, q.id = i) ∨
  (c.h2 = true ∧ ∃ p ∈ c.toClient, p.1 = some i) ∨
  (c.h2 = false ∧ c.toClient ≠ [] ∧ c.owner = some i)

/-- … on a connection that can still carry it to its end -/
def Located (s : St) (i : Nat) : Prop := ∃ c ∈ s.conns, c.alive = true ∧ inFlight c i

def Accounted (s : St) (i : Nat) : Prop :=
  (∃ r, (i, r) ∈ s.delivered) ∨ i ∈ s.cancelled ∨ Located s i

structure NoLoss (s : St) : Prop where
  inv : Inv s
  all : ∀ i ∈ s.issued, Accounted s i
  /-- HTTP/2 connections are never closed by the client in this model -/
  h2alive : ∀ c ∈ s.conns, c.h2 = true → c.alive = true

theorem mem_updConn_of_mem {cs : List Conn} {k : Nat} {f : Conn → Conn} {c : Conn} (h : c ∈ cs) :
    c ∈ updConn cs k f ∨ (cs[k]? = some c ∧ f c ∈ updConn cs k f) := by
  unfold updConn
  obtain ⟨j, hj, rfl⟩ := List.getElem_of_mem h
  by_cases hjk : j = k
  · right
    subst hjk
    refine ⟨by simp [hj], ?_⟩
    rw [List.mem_mapIdx]
    exact ⟨j, hj, by simp⟩
  · left
    rw [List.mem_mapIdx]
    exact ⟨j, hj, by simp [hjk]⟩

theorem updConn_at {cs : List Conn} {k : Nat} {f : Conn → Conn} {c : Conn} (h : cs[k]? = some c) :
    f c ∈ updConn cs k f := by
  have hk : k < cs.length := by
    rcases Nat.lt_or_ge k cs.length with h' | h'
    · exact h'
    · rw [List.getElem?_eq_none_iff.mpr h'] at h; cases h
  have hv : cs[k] = c := by
    have := List.getElem?_eq_getElem hk
    rw [h] at this; exact (Option.some.inj this).symm
  unfold updConn
  rw [List.mem_mapIdx]
  exact ⟨k, hk, by simp [hv]⟩

/-- if `f` keeps liveness and what is in flight for `i` on the connection it is applied to, whoever
    was located stays located -/
theorem located_updConn {s : St} {k : Nat} {f : Conn → Conn} {i : Nat}
    (hf : ∀ c, s.conns[k]? = some c → c.alive = true → inFlight c i → (f c).alive = true ∧ inFlight (f c) i)
    (h : Located s i) : ∃ c ∈ updConn s.conns k f, c.alive = true ∧ inFlight c i := by
  obtain ⟨c, hc, ha, hi⟩ := h
  rcases mem_updConn_of_mem (k := k) (f := f) hc with h1 | ⟨hk, h1⟩
  · exact ⟨c, h1, ha, hi⟩
  · exact ⟨f c, h1, hf c hk ha hi⟩

theorem inFlight_writeReq {c : Conn} {r : Req} {i : Nat} {reqs : List Req} (hok : ConnOk reqs c)
    (hel : eligible r c = true) (h : inFlight c i) : inFlight (writeReq r c) i := by
  simp only [eligible, Bool.and_eq_true, Bool.or_eq_true] at hel
  obtain ⟨⟨ha, _⟩, hfree⟩ := hel
  cases hh : c.h2 with
  | true =>
    rcases h with ⟨q, hq, hqi⟩ | ⟨_, p, hp, hpi⟩ | ⟨h1, _⟩
    · left; refine ⟨q, ?_, hqi⟩
      simp only [writeReq, List.mem_append, List.mem_singleton] at hq ⊢
      rcases hq with hq | hq
      · exact Or.inl (Or.inl hq)
      · exact Or.inr hq
    · right; left; exact ⟨by simp [writeReq, hh], p, by simpa [writeReq] using hp, hpi⟩
    · rw [hh] at h1; cases h1
  | false =>
    have ho : c.owner = none := by
      rcases hfree with h2 | h2
      · rw [hh] at h2; cases h2
      · simpa using h2
    obtain ⟨e1, e2, e3⟩ := idle_empty hok hh ha ho
    rcases h with ⟨q, hq, _⟩ | ⟨h2, _⟩ | ⟨_, hne, _⟩
    · simp [e1, e2] at hq
    · rw [hh] at h2; cases h2
    · exact absurd e3 hne

theorem inFlight_writeReq_self (c : Conn) (r : Req) : inFlight (writeReq r c) r.id := by
  left; exact ⟨r, by simp [writeReq], rfl⟩

theorem inFlight_srvRead {c : Conn} {i : Nat} (h : inFlight c i) : inFlight (srvReadConn c).1 i := by
  unfold srvReadConn
  cases hl : c.toServer with
  | nil => simpa [hl] using h
  | cons x rest =>
    simp only []
    rcases h with ⟨q, hq, hqi⟩ | h | h
    · left; refine ⟨q, ?_, hqi⟩
      have hq' : q = x ∨ q ∈ rest ∨ q ∈ c.inHandler := by
        simp only [hl, List.mem_append, List.mem_cons] at hq
        rcases hq with (hq | hq) | hq
        · exact Or.inl hq
        · exact Or.inr (Or.inl hq)
        · exact Or.inr (Or.inr hq)
      show q ∈ rest ++ (c.inHandler ++ [x])
      simp only [List.mem_append, List.mem_singleton]
      rcases hq' with h1 | h1 | h1
      · exact Or.inr (Or.inr h1)
      · exact Or.inl h1
      · exact Or.inr (Or.inl h1)
    · right; left; exact h
    · right; right; exact h

theorem mem_removeAt_or {α} {x : α} : ∀ {l : List α} {k : Nat}, x ∈ l → x ∈ removeAt l k ∨ l[k]? = some x
  | [], _, h => by simp at h
  | y :: ys, 0, h => by
    simp only [List.mem_cons] at h
    rcases h with h | h
    · right; simp [h]
    · left; simpa [removeAt] using h
  | y :: ys, k + 1, h => by
    simp only [List.mem_cons] at h
    rcases h with h | h
    · left; simp [removeAt, h]
    · rcases mem_removeAt_or (k := k) h with h' | h'
      · left; simp [removeAt, h']
      · right; simpa using h'

theorem inFlight_srvReply {reqs : List Req} {c : Conn} {i : Nat} (k : Nat) (hok : ConnOk reqs c) (ha : c.alive = true)
    (h : inFlight c i) : inFlight (srvReplyConn c k) i := by
  unfold srvReplyConn
  split
  · exact h
  · cases hk : c.inHandler[k]? with
    | none => simpa using h
    | some q =>
      simp only []
      have hqmem : q ∈ c.inHandler := List.mem_of_getElem? hk
      rcases h with ⟨x, hx, hxi⟩ | ⟨h2, p, hp, hpi⟩ | ⟨h1, hne, ho⟩
      · simp only [List.mem_append] at hx
        rcases hx with hx | hx
        · left; exact ⟨x, by simp [hx], hxi⟩
        · rcases mem_removeAt_or (k := k) hx with hx' | hx'
          · left; exact ⟨x, by simp [hx'], hxi⟩
          · rw [hk] at hx'; cases hx'
            cases hh : c.h2 with
            | true =>
              right; left
              exact ⟨rfl, (some q.id, serve q), by simp, by simp [hxi]⟩
            | false =>
              right; right
              refine ⟨rfl, by simp, ?_⟩
              have := (hok.reqsOk q (List.mem_append_right _ hqmem)).2 hh ha
              rw [this, hxi]
      · right; left; exact ⟨h2, p, by simp [hp], hpi⟩
      · right; right; exact ⟨h1, by simp, ho⟩

theorem inFlight_cancel {reqs : List Req} {c : Conn} {i j : Nat} (hok : ConnOk reqs c) (ha : c.alive = true)
    (hij : i ≠ j) (h : inFlight c i) : (cancelConn j c).alive = true ∧ inFlight (cancelConn j c) i := by
  unfold cancelConn
  split
  · rename_i hc
    simp only [Bool.and_eq_true, Bool.not_eq_true', beq_iff_eq] at hc
    obtain ⟨h1, ho⟩ := hc
    exfalso
    rcases h with ⟨q, hq, hqi⟩ | ⟨h2, _⟩ | ⟨_, _, ho'⟩
    · have := (hok.reqsOk q hq).2 h1 ha
      rw [ho] at this
      simp only [Option.some.injEq] at this
      exact hij (hqi.symm.trans this.symm)
    · rw [h1] at h2; cases h2
    · rw [ho] at ho'
      simp only [Option.some.injEq] at ho'
      exact hij ho'.symm
  · exact ⟨ha, h⟩

theorem accounted_mono {s s' : St} {i : Nat}
    (hd : ∀ p ∈ s.delivered, p ∈ s'.delivered) (hc : ∀ x ∈ s.cancelled, x ∈ s'.cancelled)
    (hl : Located s i → Accounted s' i) (h : Accounted s i) : Accounted s' i := by
  rcases h with ⟨r, hr⟩ | h | h
  · exact Or.inl ⟨r, hd _ hr⟩
  · exact Or.inr (Or.inl (hc _ h))
  · exact hl h

end Hd.E2E

namespace Hd.E2E

theorem cliRead_alive (c : Conn) : (cliReadConn c).1.alive = c.alive := by
  unfold cliReadConn
  split
  · rfl
  · cases hl : c.toClient with
    | nil => rfl
    | cons p rest => obtain ⟨tag, r⟩ := p; simp only []; split <;> rfl

theorem srvReply_alive (c : Conn) (k : Nat) : (srvReplyConn c k).alive = c.alive := by
  unfold srvReplyConn
  split
  · rfl
  · cases hk : c.inHandler[k]? <;> rfl

theorem srvRead_alive (c : Conn) : (srvReadConn c).1.alive = c.alive := by
  unfold srvReadConn
  cases hl : c.toServer <;> rfl

theorem srvRead_h2 (c : Conn) : (srvReadConn c).1.h2 = c.h2 := by
  unfold srvReadConn
  cases hl : c.toServer <;> rfl

theorem srvReply_h2 (c : Conn) (k : Nat) : (srvReplyConn c k).h2 = c.h2 := by
  unfold srvReplyConn
  split
  · rfl
  · cases hk : c.inHandler[k]? <;> rfl

theorem cliRead_h2 (c : Conn) : (cliReadConn c).1.h2 = c.h2 := by
  unfold cliReadConn
  split
  · rfl
  · cases hl : c.toClient with
    | nil => rfl
    | cons p rest => obtain ⟨tag, r⟩ := p; simp only []; split <;> rfl

theorem cancel_h2_alive (i : Nat) (c : Conn) (h : c.h2 = true) (ha : c.alive = true) :
    (cancelConn i c).h2 = true ∧ (cancelConn i c).alive = true := by
  unfold cancelConn; simp [h, ha]

/-- after the client read a response off `c`: whoever else was in flight on `c` still is; the one the
    response was for is named by the read -/
theorem inFlight_cliRead {reqs : List Req} {c : Conn} {i : Nat} (hok : ConnOk reqs c) (ha : c.alive = true)
    (h : inFlight c i) : inFlight (cliReadConn c).1 i ∨ ∃ r, (cliReadConn c).2 = some (i, r) := by
  unfold cliReadConn
  simp only [ha, Bool.not_true, Bool.false_eq_true, if_false]
  cases hl : c.toClient with
  | nil => left; simpa [hl] using h
  | cons p rest =>
    obtain ⟨tag, r⟩ := p
    simp only []
    cases hh : c.h2 with
    | true =>
      simp only [if_true]
      rcases h with ⟨q, hq, hqi⟩ | ⟨_, p, hp, hpi⟩ | ⟨h1, _⟩
      · left; left; exact ⟨q, hq, hqi⟩
      · rw [hl] at hp
        simp only [List.mem_cons] at hp
        rcases hp with hp | hp
        · right; subst hp; simp only [] at hpi; exact ⟨r, by simp [hpi]⟩
        · left; right; left; exact ⟨rfl, p, hp, hpi⟩
      · rw [hh] at h1; cases h1
    | false =>
      simp only [Bool.false_eq_true, if_false]
      have hone := hok.one hh ha
      simp only [hl, List.length_cons] at hone
      have e1 : c.toServer = [] := List.eq_nil_of_length_eq_zero (by omega)
      have e2 : c.inHandler = [] := List.eq_nil_of_length_eq_zero (by omega)
      rcases h with ⟨q, hq, _⟩ | ⟨h2, _⟩ | ⟨_, _, ho⟩
      · simp [e1, e2] at hq
      · rw [hh] at h2; cases h2
      · right; exact ⟨r, by simp [ho]⟩

theorem noLoss_init (reqs : List Req) : NoLoss (init reqs) :=
  ⟨inv_init reqs, by simp [init], by simp [init]⟩

/-- requests other than the ones an op is about stay accounted for when the op only rewrites
    connection `k` with a function that keeps their messages -/
theorem accounted_upd {s s' : St} {k : Nat} {f : Conn → Conn} {j : Nat}
    (hconns : s'.conns = updConn s.conns k f)
    (hd : ∀ p ∈ s.delivered, p ∈ s'.delivered) (hc : ∀ x ∈ s.cancelled, x ∈ s'.cancelled)
    (hf : ∀ c, s.conns[k]? = some c → c.alive = true → inFlight c j → (f c).alive = true ∧ inFlight (f c) j)
    (h : Accounted s j) : Accounted s' j := by
  apply accounted_mono hd hc _ h
  intro hl
  right; right
  obtain ⟨c, hc', ha, hi⟩ := located_updConn (k := k) (f := f) hf hl
  exact ⟨c, by rw [hconns]; exact hc', ha, hi⟩

theorem noLoss_step (s : St) (op : Op) (h : NoLoss s) : NoLoss (step s op) := by
  have hinv' := (inv_step s op h.inv).1
  refine ⟨hinv', ?_, ?_⟩
  · -- every issued request is accounted for
    cases op with
    | issue i k =>
      simp only [step]
      cases hr : lookup s.reqs i with
      | none => exact h.all
      | some r =>
        cases hc : s.conns[k]? with
        | none => exact h.all
        | some c =>
          simp only []
          split
          · exact h.all
          · rename_i hg
            simp only [Bool.or_eq_true, Bool.not_eq_true', not_or, Bool.not_eq_true] at hg
            have hel : eligible r c = true := by simpa using hg.2
            have hcm : c ∈ s.conns := List.mem_of_getElem? hc
            have hal : c.alive = true := by
              simp only [eligible, Bool.and_eq_true] at hel; exact hel.1.1
            have hid := lookup_some_id hr
            intro j hj
            simp only [List.mem_cons] at hj
            rcases hj with rfl | hj
            · right; right
              exact ⟨writeReq r c, updConn_at hc, by simp [writeReq, hal], by rw [← hid]; exact inFlight_writeReq_self c r⟩
            · refine accounted_upd (s := s) (k := k) (f := writeReq r) rfl (fun _ hp => hp) (fun _ hx => hx) ?_ (h.all j hj)
              intro c' hc' ha' hi'
              rw [hc] at hc'; cases hc'
              exact ⟨by simp [writeReq, ha'], inFlight_writeReq (h.inv.conns c hcm) hel hi'⟩
    | issueNew i =>
      simp only [step]
      cases hr : lookup s.reqs i with
      | none => exact h.all
      | some r =>
        simp only []
        split
        · exact h.all
        · have hid := lookup_some_id hr
          intro j hj
          simp only [List.mem_cons] at hj
          rcases hj with rfl | hj
          · right; right
            refine ⟨newConn r, by simp, by simp [newConn, writeReq], ?_⟩
            rw [← hid]; exact inFlight_writeReq_self _ r
          · refine accounted_mono (s := s) (fun _ hp => hp) (fun _ hx => hx) ?_ (h.all j hj)
            intro ⟨c, hc, ha, hi⟩
            right; right
            exact ⟨c, by simp [hc], ha, hi⟩
    | srvRead k =>
      simp only [step]
      cases hc : s.conns[k]? with
      | none => exact h.all
      | some c =>
        simp only []
        cases hq : (srvReadConn c).2 with
        | none => exact h.all
        | some q =>
          simp only []
          intro j hj
          refine accounted_upd (s := s) (k := k) (f := fun c => (srvReadConn c).1) rfl (fun _ hp => hp) (fun _ hx => hx) ?_ (h.all j hj)
          intro c' _ ha' hi'
          exact ⟨by rw [srvRead_alive]; exact ha', inFlight_srvRead hi'⟩
    | srvReply k n =>
      simp only [step]
      intro j hj
      refine accounted_upd (s := s) (k := k) (f := fun c => srvReplyConn c n) rfl (fun _ hp => hp) (fun _ hx => hx) ?_ (h.all j hj)
      intro c' hc' ha' hi'
      exact ⟨by rw [srvReply_alive]; exact ha', inFlight_srvReply n (h.inv.conns c' (List.mem_of_getElem? hc')) ha' hi'⟩
    | cliRead k =>
      simp only [step]
      cases hc : s.conns[k]? with
      | none => exact h.all
      | some c =>
        simp only []
        have hcok := h.inv.conns c (List.mem_of_getElem? hc)
        -- what happens to an accounted-for `j`
        have key : ∀ j, Accounted s j → ∀ (dl : List (Nat × Resp)), (∀ p ∈ s.delivered, p ∈ dl) →
            (∀ r, (cliReadConn c).2 = some (j, r) → j ∈ s.cancelled ∨ (j, r) ∈ dl) →
            Accounted { s with conns := updConn s.conns k (fun c => (cliReadConn c).1), delivered := dl } j := by
          intro j hacc dl hdl hdel
          rcases hacc with ⟨r, hr⟩ | hcn | hl
          · exact Or.inl ⟨r, hdl _ hr⟩
          · exact Or.inr (Or.inl hcn)
          · obtain ⟨c', hc', ha', hi'⟩ := hl
            rcases mem_updConn_of_mem (k := k) (f := fun c => (cliReadConn c).1) hc' with h1 | ⟨hk, h1⟩
            · exact Or.inr (Or.inr ⟨c', h1, ha', hi'⟩)
            · rw [hc] at hk; cases hk
              rcases inFlight_cliRead hcok ha' hi' with h2 | ⟨r, h2⟩
              · exact Or.inr (Or.inr ⟨(cliReadConn c).1, h1, by rw [cliRead_alive]; exact ha', h2⟩)
              · rcases hdel r h2 with h3 | h3
                · exact Or.inr (Or.inl h3)
                · exact Or.inl ⟨r, h3⟩
        cases hd : (cliReadConn c).2 with
        | none =>
          simp only []
          intro j hj
          exact key j (h.all j hj) s.delivered (fun _ hp => hp) (fun r hr => by rw [hd] at hr; cases hr)
        | some p =>
          obtain ⟨i, r⟩ := p
          simp only []
          split
          · rename_i hcan
            intro j hj
            apply key j (h.all j hj) s.delivered (fun _ hp => hp)
            intro r' hr'
            rw [hd] at hr'
            simp only [Option.some.injEq, Prod.mk.injEq] at hr'
            left
            have : s.cancelled.contains i = true := hcan
            rw [hr'.1] at this
            simpa using this
          · intro j hj
            apply key j (h.all j hj) (s.delivered ++ [(i, r)]) (fun _ hp => List.mem_append_left _ hp)
            intro r' hr'
            rw [hd] at hr'
            simp only [Option.some.injEq, Prod.mk.injEq] at hr'
            right
            simp [hr'.1, hr'.2]
    | cancel i =>
      simp only [step]
      cases hr : lookup s.reqs i with
      | none => exact h.all
      | some r =>
        simp only []
        split
        · exact h.all
        · intro j hj
          by_cases hji : j = i
          · subst hji; exact Or.inr (Or.inl (by simp))
          · rcases h.all j hj with ⟨r', hr'⟩ | hcn | ⟨c, hc, ha, hi⟩
            · exact Or.inl ⟨r', hr'⟩
            · exact Or.inr (Or.inl (List.mem_cons_of_mem _ hcn))
            · obtain ⟨ha', hi'⟩ := inFlight_cancel (j := i) (h.inv.conns c hc) ha hji hi
              exact Or.inr (Or.inr ⟨cancelConn i c, List.mem_map.mpr ⟨c, hc, rfl⟩, ha', hi'⟩)
  · -- HTTP/2 connections stay open
    cases op with
    | issue i k =>
      simp only [step]
      cases hr : lookup s.reqs i with
      | none => exact h.h2alive
      | some r =>
        cases hc : s.conns[k]? with
        | none => exact h.h2alive
        | some c =>
          simp only []
          split
          · exact h.h2alive
          · intro c' hc' h2'
            rcases mem_updConn hc' with hm | ⟨c0, hc0, rfl⟩
            · exact h.h2alive c' hm h2'
            · have := h.h2alive c0 (List.mem_of_getElem? hc0) (by simpa [writeReq] using h2')
              simpa [writeReq] using this
    | issueNew i =>
      simp only [step]
      cases hr : lookup s.reqs i with
      | none => exact h.h2alive
      | some r =>
        simp only []
        split
        · exact h.h2alive
        · intro c' hc' h2'
          simp only [List.mem_append, List.mem_singleton] at hc'
          rcases hc' with hm | rfl
          · exact h.h2alive c' hm h2'
          · simp [newConn, writeReq]
    | srvRead k =>
      simp only [step]
      cases hc : s.conns[k]? with
      | none => exact h.h2alive
      | some c =>
        simp only []
        cases hq : (srvReadConn c).2 with
        | none => exact h.h2alive
        | some q =>
          intro c' hc' h2'
          rcases mem_updConn hc' with hm | ⟨c0, hc0, rfl⟩
          · exact h.h2alive c' hm h2'
          · rw [srvRead_alive]; rw [srvRead_h2] at h2'
            exact h.h2alive c0 (List.mem_of_getElem? hc0) h2'
    | srvReply k n =>
      simp only [step]
      intro c' hc' h2'
      rcases mem_updConn hc' with hm | ⟨c0, hc0, rfl⟩
      · exact h.h2alive c' hm h2'
      · rw [srvReply_alive]; rw [srvReply_h2] at h2'
        exact h.h2alive c0 (List.mem_of_getElem? hc0) h2'
    | cliRead k =>
      simp only [step]
      cases hc : s.conns[k]? with
      | none => exact h.h2alive
      | some c =>
        simp only []
        have hall : ∀ c' ∈ updConn s.conns k (fun c => (cliReadConn c).1), c'.h2 = true → c'.alive = true := by
          intro c' hc' h2'
          rcases mem_updConn hc' with hm | ⟨c0, hc0, rfl⟩
          · exact h.h2alive c' hm h2'
          · rw [cliRead_alive]; rw [cliRead_h2] at h2'
            exact h.h2alive c0 (List.mem_of_getElem? hc0) h2'
        cases hd : (cliReadConn c).2 with
        | none => exact hall
        | some p =>
          obtain ⟨i, r⟩ := p
          simp only []
          split <;> exact hall
    | cancel i =>
      simp only [step]
      cases hr : lookup s.reqs i with
      | none => exact h.h2alive
      | some r =>
        simp only []
        split
        · exact h.h2alive
        · intro c' hc' h2'
          simp only [List.mem_map] at hc'
          obtain ⟨c0, hc0, rfl⟩ := hc'
          have h20 : c0.h2 = true := by
            unfold cancelConn at h2'; split at h2' <;> simpa using h2'
          exact (cancel_h2_alive i c0 h20 (h.h2alive c0 hc0 h20)).2

theorem noLoss_run (reqs : List Req) (ops : List Op) : NoLoss (run reqs ops) := by
  unfold run
  have key : ∀ (ops : List Op) (s : St), NoLoss s → NoLoss (ops.foldl step s) := by
    intro ops
    induction ops with
    | nil => intro s h; exact h
    | cons op ops ih => intro s h; exact ih _ (noLoss_step s op h)
  exact key ops (init reqs) (noLoss_init reqs)

end Hd.E2E
