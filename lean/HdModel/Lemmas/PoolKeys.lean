import HdModel.Lemmas.PoolFrame
/-! # C06 — connections are never shared across origins

`tokenOf` mirrors `TokenMap::insert` (src/client/pool/key.rs): origins (scheme, authority – compared
case-insensitively by the `http` crate, hence canonical `KeyId`s here) get distinct non-zero
tokens, and every pool structure is indexed by token. The counter's wrap-around at `usize::MAX`
is out of the model (it needs 2^64 distinct origins). -/
namespace Hd.Pool

/-- The token table is well formed: tokens are non-zero, below the counter, and injective. -/
def KeysOk (s : State) : Prop :=
  0 < s.counter ∧
  (∀ k t, s.keys.lookup k = some t → 0 < t ∧ t < s.counter) ∧
  (∀ k k' t, s.keys.lookup k = some t → s.keys.lookup k' = some t → k = k')

theorem keysOk_init (cfg : Config) : KeysOk (init cfg) := by
  refine ⟨by simp [init], ?_, ?_⟩ <;> simp [init]

/-- **C06 (distinct origins, distinct tokens).** `tokenOf` keeps the table well formed, returns the
    key's token, and never hands the same token to two different keys. -/
theorem C06_tokenOf (s : State) (k : KeyId) (h : KeysOk s) :
    KeysOk (tokenOf s k).1 ∧ (tokenOf s k).1.keys.lookup k = some (tokenOf s k).2 ∧
    (∀ k' t, s.keys.lookup k' = some t → (tokenOf s k).1.keys.lookup k' = some t) := by
  obtain ⟨hc, hr, hi⟩ := h
  unfold tokenOf
  cases hl : s.keys.lookup k with
  | some t => exact ⟨⟨hc, hr, hi⟩, hl, fun _ _ h => h⟩
  | none =>
    have hnew : ∀ k' t, ((k, s.counter) :: s.keys).lookup k' = some t →
        (k' = k ∧ t = s.counter) ∨ (k' ≠ k ∧ s.keys.lookup k' = some t) := by
      intro k' t ht
      by_cases e : k' = k
      · subst e; simp [List.lookup_cons] at ht; exact Or.inl ⟨rfl, ht.symm⟩
      · have : (k' == k) = false := by simpa using e
        simp only [List.lookup_cons, this] at ht
        exact Or.inr ⟨e, ht⟩
    refine ⟨⟨Nat.succ_pos _, ?_, ?_⟩, by simp [List.lookup_cons], ?_⟩
    · intro k' t ht
      rcases hnew k' t ht with ⟨_, rfl⟩ | ⟨_, h'⟩
      · exact ⟨hc, Nat.lt_succ_self _⟩
      · have := hr k' t h'; exact ⟨this.1, Nat.lt_succ_of_lt this.2⟩
    · intro k1 k2 t h1 h2
      rcases hnew k1 t h1 with ⟨e1, t1⟩ | ⟨_, h1'⟩ <;> rcases hnew k2 t h2 with ⟨e2, t2⟩ | ⟨_, h2'⟩
      · rw [e1, e2]
      · subst t1; have := (hr k2 _ h2').2; exact absurd this (Nat.lt_irrefl _)
      · subst t2; have := (hr k1 _ h1').2; exact absurd this (Nat.lt_irrefl _)
      · exact hi k1 k2 t h1' h2'
    · intro k' t ht
      by_cases e : k' = k
      · subst e; rw [hl] at ht; cases ht
      · have : (k' == k) = false := by simpa using e
        simp only [List.lookup_cons, this]
        exact ht

/-- Two different origins never receive the same token (at any later time either, since entries
    are never removed or changed). -/
theorem C06_tokens_distinct (s : State) (k k' : KeyId) (h : KeysOk s) (hne : k ≠ k') :
    (tokenOf s k).2 ≠ (tokenOf (tokenOf s k).1 k').2 := by
  obtain ⟨h1, hk, _⟩ := C06_tokenOf s k h
  obtain ⟨h2, hk', hmono⟩ := C06_tokenOf (tokenOf s k).1 k' h1
  intro e
  have := h2.2.2 k k' _ (hmono k _ hk) (e ▸ hk')
  exact hne this

/-- A connection established by a checkout carries that checkout's origin. -/
theorem C06_new_conn_origin (s : State) (c : Checkout) (alpn : Negotiated) :
    ((newConn s c alpn).1.conns (newConn s c alpn).2).map (·.origin) = some c.key := by
  simp [newConn]

end Hd.Pool
