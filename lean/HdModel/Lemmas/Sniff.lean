import HdModel.Spec.Sniff
/-! Helper lemmas for C08 / C18 (core Lean only). -/
namespace Hd.Sniff

theorem prefix_full {a P : Bytes} (h : a <+: P) (hl : P.length ≤ a.length) : a = P := by
  obtain ⟨t, rfl⟩ := h
  have : t = [] := by
    cases t with
    | nil => rfl
    | cons x xs => simp at hl; omega
  simp [this]

theorem prefix_split {a P : Bytes} (h : a <+: P) : P = a ++ P.drop a.length := by
  obtain ⟨t, rfl⟩ := h; simp

/-- With `a` a prefix of `P`: `P` is a prefix of `a ++ s` iff the rest of `P` is a prefix of `s`. -/
theorem prefix_shift {a P s : Bytes} (h : a <+: P) : P <+: a ++ s ↔ P.drop a.length <+: s := by
  obtain ⟨t, rfl⟩ := h
  simp [List.prefix_append_right_inj]

theorem drain_data_cons (b : Nat) (bs : Bytes) (rest : List Ev) :
    drain (.data (b :: bs) :: rest) = (b :: bs) ++ drain rest := by
  simp [drain]

theorem drain_data_ne (bs : Bytes) (rest : List Ev) (h : bs ≠ []) :
    drain (.data bs :: rest) = bs ++ drain rest := by
  cases bs with
  | nil => exact absurd rfl h
  | cons b bs => exact drain_data_cons b bs rest

end Hd.Sniff
