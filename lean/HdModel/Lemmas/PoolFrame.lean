import HdModel.Spec.Pool
/-! Frame lemmas for the pool primitives: which fields each one leaves alone. -/
namespace Hd.Pool

@[simp] theorem upd_same {α β} [DecidableEq α] (f : α → β) (a : α) (b : β) : upd f a b a = b := by simp [upd]
@[simp] theorem upd_other {α β} [DecidableEq α] (f : α → β) (a x : α) (b : β) (h : x ≠ a) : upd f a b x = f x := by
  simp [upd, h]

@[simp] theorem spawn_idle (s : State) (t : Task) : (spawn s t).idle = s.idle := rfl
@[simp] theorem spawn_cfg (s : State) (t : Task) : (spawn s t).cfg = s.cfg := rfl

@[simp] theorem dropPooled_idle (s : State) (p : Pooled) : (dropPooled s p).idle = s.idle := by
  unfold dropPooled; split <;> rfl
@[simp] theorem dropPooled_cfg (s : State) (p : Pooled) : (dropPooled s p).cfg = s.cfg := by
  unfold dropPooled; split <;> rfl

@[simp] theorem dropRx_idle (s : State) (r : ReqId) : (dropRx s r).idle = s.idle := by
  unfold dropRx; split <;> simp
@[simp] theorem dropRx_cfg (s : State) (r : ReqId) : (dropRx s r).cfg = s.cfg := by
  unfold dropRx; split <;> simp

@[simp] theorem dropSenders_idle (s : State) (l : List ReqId) : (dropSenders s l).idle = s.idle := by
  induction l generalizing s with
  | nil => rfl
  | cons r rest ih => simp only [dropSenders]; rw [ih]; split <;> rfl
@[simp] theorem dropSenders_cfg (s : State) (l : List ReqId) : (dropSenders s l).cfg = s.cfg := by
  induction l generalizing s with
  | nil => rfl
  | cons r rest ih => simp only [dropSenders]; rw [ih]; split <;> rfl

@[simp] theorem cancelConnection_idle (s : State) (t : Token) : (cancelConnection s t).idle = s.idle := by
  unfold cancelConnection; split <;> simp
@[simp] theorem cancelConnection_cfg (s : State) (t : Token) : (cancelConnection s t).cfg = s.cfg := by
  unfold cancelConnection; split <;> simp

theorem pushLoop_idle (s : State) (t : Token) (c : ConnId) (l : List ReqId) :
    (pushLoop s t c l).1.idle = s.idle ∧ (pushLoop s t c l).1.cfg = s.cfg := by
  induction l generalizing s with
  | nil => simp [pushLoop]
  | cons r rest ih =>
    simp only [pushLoop]
    split
    · split
      · have := ih { s with chan := upd s.chan r (.full ⟨c, 0, true⟩) }; simpa using this
      · simp
    · exact ih s

@[simp] theorem setConn_idle (s : State) (c : ConnId) (f : Conn → Conn) : (setConn s c f).idle = s.idle := by
  unfold setConn; split <;> rfl
@[simp] theorem setConn_cfg (s : State) (c : ConnId) (f : Conn → Conn) : (setConn s c f).cfg = s.cfg := by
  unfold setConn; split <;> rfl
@[simp] theorem wakeConn_idle (s : State) (c : ConnId) : (wakeConn s c).idle = s.idle := rfl
@[simp] theorem wakeConn_cfg (s : State) (c : ConnId) : (wakeConn s c).cfg = s.cfg := rfl
@[simp] theorem wakeDial_idle (s : State) (r : ReqId) : (wakeDial s r).idle = s.idle := rfl
@[simp] theorem wakeDial_cfg (s : State) (r : ReqId) : (wakeDial s r).cfg = s.cfg := rfl
@[simp] theorem removeTask_idle (s : State) (i : Nat) : (removeTask s i).idle = s.idle := rfl
@[simp] theorem removeTask_cfg (s : State) (i : Nat) : (removeTask s i).cfg = s.cfg := rfl
@[simp] theorem noteDropped_idle (s : State) (l : List ConnId) : (noteDropped s l).idle = s.idle := rfl
@[simp] theorem noteDropped_cfg (s : State) (l : List ConnId) : (noteDropped s l).cfg = s.cfg := rfl

@[simp] theorem cancelIfOwner_idle (s : State) (c : Checkout) : (cancelIfOwner s c).idle = s.idle := by
  unfold cancelIfOwner; split <;> simp
@[simp] theorem cancelIfOwner_cfg (s : State) (c : Checkout) : (cancelIfOwner s c).cfg = s.cfg := by
  unfold cancelIfOwner; split <;> simp
@[simp] theorem startDial_idle (s : State) (r : ReqId) : (startDial s r).idle = s.idle := by
  unfold startDial; split <;> rfl
@[simp] theorem startDial_cfg (s : State) (r : ReqId) : (startDial s r).cfg = s.cfg := by
  unfold startDial; split <;> rfl

@[simp] theorem newConn_idle (s : State) (c : Checkout) (a : Negotiated) : (newConn s c a).1.idle = s.idle := rfl
@[simp] theorem newConn_cfg (s : State) (c : Checkout) (a : Negotiated) : (newConn s c a).1.cfg = s.cfg := rfl

@[simp] theorem clearMarker_idle (s : State) (t : Token) (c : ConnId) : (clearMarker s t c).idle = s.idle := by
  unfold clearMarker; split <;> rfl
@[simp] theorem clearMarker_cfg (s : State) (t : Token) (c : ConnId) : (clearMarker s t c).cfg = s.cfg := by
  unfold clearMarker; split <;> rfl
@[simp] theorem clearMarker_waiting (s : State) (t : Token) (c : ConnId) : (clearMarker s t c).waiting = s.waiting := by
  unfold clearMarker; split <;> rfl

end Hd.Pool
